#!/bin/bash
# Builds the harness once (warms the Go build cache) from files on disk only.
cd "$(dirname "$0")"
export GOFLAGS=-mod=mod GOPROXY=off GOSUMDB=off GOTOOLCHAIN=local
exec python3 ./run.py build
