#!/usr/bin/env python3
"""Writes MANIFEST.json from the table below (kept in one place so it stays valid)."""
import json, os, subprocess

ROOT = os.path.dirname(os.path.abspath(__file__))
ids = [json.loads(l)["id"] for l in open(os.path.join(ROOT, "properties.jsonl"))]
plan = json.load(open(os.path.join(ROOT, "plan.json")))

# id -> (technique, level text, level note, design ref)
T = {
 "C01": ("differential execution: rapid-generated programs, reference interpreter over the program model vs. interpreter over the emitted assembly",
         "Generated-input search (pgregory.net/rapid, shrinking, replay files): programs over the whole control-flow grammar (incl. AutoVar conditions and hand-written goto_if_set/unset commands) are compiled (optimize off/on; a quarter with line markers on, judged on the stripped output) and the emitted assembly is executed from every entry under many hashed game states; trace and finish must equal an independent small-step reference interpreter over the harness' own program model. Evidence counts programs and distinct non-trivial ones. No proof: held on N generated cases.",
         "Trusted: the reference semantics in harness/refsem.go (written from the manual, validated on 10^5+ programs), the assembly interpreter's reading of the decomp control-flow macros, purity of condition tests, a 60-command horizon.", "DESIGN.md 10/C01"),
 "C02": ("truth-table oracle over generated boolean expressions + exhaustive small-scope enumeration",
         "For rapid-generated and exhaustively enumerated (<=3 leaves quick, <=4 thorough) expressions, EVERY truth assignment of the leaves is realised by a scripted world (vars below/at/above the comparison value) and the assembly's branch must equal the value of the written expression (and the reference run), optimize off/on, in if/elif/while/do-while contexts.",
         "Trusted: harness truth-table evaluator (cross-checked against the reference interpreter at run time), assembly interpreter, injective hashing of symbolic comparison values.", "DESIGN.md 10/C02"),
 "C03": ("differential execution per case value + exhaustive small-scope enumeration of case lists",
         "Generated and exhaustively enumerated switch statements (case lists up to 3/5 entries x body kinds x default position x contexts) are driven with every case value and one non-matching value; assembly run must equal the reference run (shared bodies, trailing empties, default anywhere, break, continuation), optimize off/on.",
         "Trusted: reference semantics of switch as stated in the property, assembly interpreter's switch/case reading, distinct case values denote distinct numbers.", "DESIGN.md 10/C03"),
 "C04": ("model-based structural check of the emitted assembly over rapid-generated whole files",
         "Generated whole files (scripts incl. labels in dead code, inline data, mapscripts, texts, movements, marts, raw) are compiled and the parsed output is checked: labels unique, generated jump/case/map-script/hoisted references defined, user labels present once, no fall-through into data, another block or the end.",
         "Trusted: the assembly line parser; generated names are recognised by shape (<entry>_<n>, *_Text_<n>, *_Movement_<n>), which user names never have in the generated domain.", "DESIGN.md 10/C04"),
 "C05": ("metamorphic relation optimize on vs. off (differential execution + structural comparison)",
         "For generated whole files the optimized and unoptimized outputs are executed against each other from every entry under hashed worlds, must define the same visible labels and data, consist of the same lines apart from generated gotos/sub-labels (never more gotos when optimized), and neither may contain a goto to the next line's label or an unreferenced generated sub-label; a program is accepted with -optimize exactly when it is accepted without.",
         "Trusted: assembly interpreter and parser; recognition of generated jumps by the shape of their target.", "DESIGN.md 10/C05"),
 "C06": ("model-based check of hoisted labels against an independent binding model",
         "Generated files with repeated inline texts / moves() across scripts, string types, format() and inline map scripts; the harness' own binding model (first appearance owns <script>_Text_<n>, per-script counters, file-wide sharing by (content,type)) predicts for every command argument slot the label and for every label its exact content; clash with user text/movement names must be rejected.",
         "Trusted: the binding model in harness (from the property statement); format() content is taken from the exported FormatText (its correctness is C07).", "DESIGN.md 10/C06"),
 "C07": ("exact reference formatter (overlap 0) + envelope validity predicate over generated texts, fonts and parameters",
         "Generated texts (words, control codes, explicit breaks, irregular spacing), generated font tables and parameters chosen at the boundary; FormatText output must equal a 30-line greedy reference when the cursor overlap is 0 and satisfy the envelope (words/breaks preserved in order, width bounds incl. overlap, necessity of inserted breaks, \\n/\\l/\\p discipline) always; also through the parser with every parameter plumbing route.",
         "Trusted: the reference formatter and the envelope predicate in harness (weakest reading where the statement is ambiguous about the overlap).", "DESIGN.md 10/C07"),
 "C08": ("model-based structural check of map-script tables + differential execution of inline scripts",
         "Generated mapscripts statements (plain, inline, table entries in any mix, multi-token vars/values, scopes); the output must contain header, ordered map_script lines, .byte 0, tables with ordered map_script_2 rows and .2byte 0, each inline script once under its local label; inline bodies are executed against the reference and against the same body compiled as a script statement.",
         "Trusted: harness model of the table layout as stated in the property; assembly interpreter.", "DESIGN.md 10/C08"),
 "C09": ("model-based check of emitted text directives over generated literals",
         "Generated string literals (multi-part, arbitrary characters, literal line breaks, typed, already terminated or ending in a prefix of the terminator) from every origin (inline, text statement, format, poryswitch); the directives under the expected label must be one per source part, concatenate to the source text and end in exactly one correct terminator.",
         "Trusted: harness rendering of a literal's value (parts joined by newline, in-literal line breaks become one space).", "DESIGN.md 10/C09"),
 "C10": ("model-based exact line check over generated command statements with random layout",
         "Generated straight-line stretches of commands with arbitrary argument tokens (operators, keywords, nested parentheses, negative numbers, constants, inline data) under random layout; the output lines of the stretch must be exactly one line per command with name and ', '-joined space-normalised argument tokens, in order.",
         "Trusted: the harness printer's separator table (self-tested against the lexer), the token model.", "DESIGN.md 10/C10"),
 "C11": ("differential execution with AutoVar commands as trace events, generated command configs",
         "Generated command configs and conditions/switches mixing AutoVar leaves with other leaves; the AutoVar command is an ordinary trace event of both interpreters, so exactly-once, short-circuit order, per-iteration repetition and the compared var (decoy vars differ) are all decided by trace equality over all truth assignments / hashed worlds.",
         "Trusted: reference interpreter's treatment of an AutoVar leaf (run command, then compare configured var).", "DESIGN.md 10/C11"),
 "C12": ("metamorphic relation: program with poryswitch vs. hand-resolved program",
         "Generated programs with poryswitch in statement, text, movement/moves() and mart positions (colon/brace forms, nesting, '_' fallback, leaking content in unselected cases) are compiled with generated -s values and must give byte-identical output / same acceptance as the model-resolved program; no match and no '_' must fail.",
         "Trusted: the harness resolver (selects the matching case or '_' on the model).", "DESIGN.md 10/C12"),
 "C13": ("metamorphic relation: constants vs. hand-expanded values on the token model",
         "Generated const definitions (incl. constants defined from earlier ones) used at every documented site and planted at undocumented sites; output must equal that of the program with definitions removed and documented uses expanded; redefinition must be rejected on its line.",
         "Trusted: harness expansion on its own token model; list of documented sites from the property.", "DESIGN.md 10/C13"),
 "C14": ("model-based exact block check + exhaustive boundary multipliers",
         "Generated movement / moves() / mart lists with multipliers, explicit terminators anywhere and poryswitch parts; emitted block must be exactly the expanded steps up to the first step_end (appended once if absent) resp. .align 2, items before the first ITEM_NONE, one ITEM_NONE; all boundary multipliers (0, 1, 9999, 10000, hex, negative, huge) enumerated.",
         "Trusted: harness expansion model; leading-zero decimal multipliers are outside the generated domain.", "DESIGN.md 10/C14"),
 "C15": ("model-based scope classification of every emitted label",
         "Generated files with every top-level kind x {none, global, local}, in-script labels with and without modifiers and every kind of compiler-invented label; each label definition in the output is classified by the model and its '::' / ':' must match modifier, documented default or 'invented => local'.",
         "Trusted: the defaults table from the property statement.", "DESIGN.md 10/C15"),
 "C16": ("metamorphic relation (-lm vs. stripped) + model-based marker/source-span check under random layout",
         "Generated whole files with unique content per construct printed under random layout (constructs spread over lines, comments, CRLF); markers stripped must give the -lm=false output byte for byte, no markers without a path, every marker names the path and a line inside the source span of the construct that follows it; no marker line in the -lm=false output; inside one movement or mart block the markers never go back.",
         "Trusted: printer's token positions (self-tested against the lexer); 'line of the construct' = any line of its span.", "DESIGN.md 10/C16"),
 "C17": ("repeatability, history independence (stateful generation, fresh-process oracle) and context-independence relations",
         "Every generated program is compiled repeatedly; rapid state-machine histories of compilations must give the results a fresh process gives for each compilation run first; each top-level statement compiled alone must emit the same block (modulo hoisted label numbering) as inside the full file.",
         "Trusted: fresh-process helper (the test binary re-executing itself); map-order nondeterminism is found only with probability 1-2^-k per affected case.", "DESIGN.md 10/C17"),
 "C18": ("robustness fuzzing: rapid token soup / mutation of valid programs, exhaustive one-edit neighbourhood of template programs, native coverage-guided go test -fuzz in thorough",
         "Token soup over the full vocabulary, mutated valid programs, the complete one-edit neighbourhood (deletion, duplication, swap, truncation, bracket-group emptying, replacement by / insertion of 40 hostile words) of 42 template programs (35 valid ones, one per production, and 7 near misses) covering every production, truncations, deep nesting and hostile constants under all option combinations in normal and lint mode: no panic, token budget (verif hook) not exceeded, result is output or a ParseError with 1<=start<=end<=lines, lint accepts whatever normal accepts and never fails for missing switches/fonts. Thorough adds a 4-minute native fuzz campaign.",
         "Trusted: token budget hook as the definition of 'bounded work'; inputs that are not valid UTF-8 are filtered before the compiler.", "DESIGN.md 10/C18"),
 "C19": ("lexeme-model oracle under two random layouts + metamorphic compile under layout change; native fuzz in thorough",
         "Generated lexeme sequences over every token class printed under two independent random layouts: both must lex to the intended (type, literal) sequence, with line/byte/rune columns equal to the printer's record and end = start + length for single-line tokens; valid programs under two layouts compile identically.",
         "Trusted: the printer's separator table (the sound input domain), self-tested.", "DESIGN.md 10/C19"),
 "C20": ("fault injection into generated valid programs with a located-rejection oracle",
         "A valid generated program under random layout gets exactly one injected fault (break/continue misuse, duplicate case, second default, redefined constant, text/movement/label clashing with a generated name taken from the real output); compilation must fail with a ParseError whose line lies in the injected construct's span, and the uninjected program must compile.",
         "Trusted: the model's legality judgement for the injected position.", "DESIGN.md 10/C20"),
}

checks, na = [], []
for i in ids:
    if i in plan and i in T:
        tech, text, note, ref = T[i]
        checks.append({
            "property_id": i,
            "quick_cmd": "./run.sh %s quick" % i,
            "thorough_cmd": "./run.sh %s thorough" % i,
            "evidence_file": "/verif/evidence/%s.json" % i,
            "replay_cmd_template": "./run.sh replay {path}",
            "engine": "harness",
            "level_claimed": {"category": "exploration", "text": text, "design_ref": ref},
            "level_note": note,
            "technique": "property-based testing: " + tech,
        })
    else:
        na.append({"property_id": i, "reason": "check not built yet (work in progress; design in DESIGN.md section 10)"})

hooks = subprocess.run(["git", "-C", "/repo", "log", "--format=%H %s"], capture_output=True, text=True).stdout.splitlines()
hook_commits = [l.split()[0] for l in hooks if "verif hook" in l]

m = {
 "version": 1,
 "setup_cmd": "./setup.sh",
 "hooks": {"guard": "verif",
           "enable": "go test -c -tags verif in /verif/harness (go.mod: replace github.com/huderlem/poryscript => /repo), so every check rebuilds from /repo's working tree with the hook on",
           "baseline_off_cmd": "cd /repo && go test -vet=off -count=1 ./...",
           "source_commits": hook_commits,
           "add_only": True},
 "engines": [{"name": "harness", "path": "/verif/harness", "serves_properties": [c["property_id"] for c in checks],
              "kind_free_text": "Go test binary: pgregory.net/rapid v1.3.0 generators + oracles (reference interpreter, assembly interpreter, structural models), small-scope enumerators, native go fuzz targets; driver run.py shards, merges evidence, maps exit codes"}],
 "checks": checks,
 "not_applicable": na,
 "notes": "All checks are generated-input search against an explicit oracle (property-based testing / fuzzing). Exit 0 = held on everything explored, 1 = VIOLATION line printed, 2 = infrastructure/inconclusive. Genuine defects found and repaired are listed in known_findings.json (fixed:) and DESIGN.md section 11.",
}
json.dump(m, open(os.path.join(ROOT, "MANIFEST.json"), "w"), indent=1)
print("MANIFEST.json: %d checks, %d not_applicable" % (len(checks), len(na)))
