#!/bin/bash
# ./run.sh <ID> quick|thorough | ./run.sh replay <file> | ./run.sh build
cd "$(dirname "$0")"
export GOFLAGS=-mod=mod GOPROXY=off GOSUMDB=off GOTOOLCHAIN=local
exec python3 ./run.py "$@"
