package harness

import (
	"fmt"
	"strings"
	"testing"

	"pgregory.net/rapid"
)

// C10: commands pass through verbatim, in order, with their argument tokens.

type C10Case struct {
	File     *File             `json:"file"`
	Gaps     []string          `json:"gaps"`
	Switches map[string]string `json:"switches,omitempty"`
}

func c10Src(c *C10Case) string {
	pr := PrintFile(c.File)
	return pr.Layout(FixedGaps(c.Gaps)).Src
}

var c10ArgWords = []string{"A", "B", "VAR_X", "FLAG_Y", "é", "x1", "_", "OBJ_EVENT_ID_PLAYER", "MSGBOX_DEFAULT",
	"var", "flag", "defeated", "true", "FALSE", "if", "else", "while", "value", "case", "default", "script", "text", "global", "local", "const", "poryswitch", "break", "continue", "do", "switch", "elif", "mart", "movement", "mapscripts", "raw",
	"0", "1", "42", "0x1F", "0x1f", "0xdeadBEEF", "-1", "-20", "007",
	"+", "-", "*", "|", "&", "!", "=", "==", "!=", "<", "<=", ">", ">=", ":", "[", "]", "{", "}", "&&", "||", "/", "%", "@", "."}

var c10Names = []string{"lock", "faceplayer", "setvar", "addvar", "call", "goto", "msgbox", "applymovement", "é_cmd", "Cmd_1", "_x", "special", "waitstate", "specialvar", "callstd", "trainerbattle_single", "compare", "goto_if_set", "switchh", "iff", "do_it"}

// c10Tokens draws a comma-separated argument list as flat tokens with balanced parentheses.
func c10Args(t *rapid.T, consts []string) []*Arg {
	n := rapid.IntRange(1, 5).Draw(t, "nargs")
	var args []*Arg
	depth := 0
	special := -1
	if rapid.IntRange(0, 3).Draw(t, "hasinline") == 0 {
		special = rapid.IntRange(0, n-1).Draw(t, "inlineslot")
	}
	for i := 0; i < n; i++ {
		if i == special && depth == 0 {
			if rapid.Bool().Draw(t, "inlinetext") {
				args = append(args, &Arg{Text: &TextVal{Lit: &StrLit{Parts: []string{rapid.SampledFrom(textPool).Draw(t, "txt")}}}})
			} else {
				args = append(args, &Arg{IsMv: true, Moves: []*Step{{Name: rapid.SampledFrom(stepPool).Draw(t, "step")}, {Name: "walk_up", Mul: "2"}}})
			}
			continue
		}
		nt := rapid.IntRange(1, 5).Draw(t, "ntoks")
		a := &Arg{}
		for k := 0; k < nt; k++ {
			switch r := rapid.IntRange(0, 11).Draw(t, "tk"); {
			case r == 0:
				a.Toks = append(a.Toks, "(")
				depth++
			case r == 1 && depth > 0 && len(a.Toks) > 0:
				a.Toks = append(a.Toks, ")")
				depth--
			case r == 2 && len(consts) > 0:
				a.Toks = append(a.Toks, rapid.SampledFrom(consts).Draw(t, "const"))
			default:
				a.Toks = append(a.Toks, rapid.SampledFrom(c10ArgWords).Draw(t, "word"))
			}
		}
		args = append(args, a)
	}
	// close what is still open inside the last plain argument
	for depth > 0 {
		last := args[len(args)-1]
		if last.Text != nil || last.IsMv {
			args = append(args, &Arg{Toks: []string{"z"}})
			last = args[len(args)-1]
		}
		last.Toks = append(last.Toks, ")")
		depth--
	}
	return args
}

func genC10(t *rapid.T) *C10Case {
	f := &File{}
	var consts []string
	nconst := rapid.IntRange(0, 2).Draw(t, "nconst")
	for i := 0; i < nconst; i++ {
		name := fmt.Sprintf("CONST_%d", i)
		val := [][]string{{"7"}, {"1", "+", "2"}, {"FLAG_BASE", "+", "0x10"}, {"(", "3", ")"}}[rapid.IntRange(0, 3).Draw(t, "constval")]
		f.Tops = append(f.Tops, &Top{K: "const", Const: &Const{Name: name, Val: val}})
		consts = append(consts, name)
	}
	nscripts := rapid.IntRange(1, 2).Draw(t, "nscripts")
	late := nscripts == 2 && rapid.IntRange(0, 2).Draw(t, "lateconst") == 0
	if late {
		consts = append(consts, "LATE_CONST") // defined between the scripts: a plain identifier in the first, a constant in the second
	}
	for s := 0; s < nscripts; s++ {
		if late && s == 1 {
			f.Tops = append(f.Tops, &Top{K: "const", Const: &Const{Name: "LATE_CONST", Val: []string{"42"}}})
		}
		sc := &Script{Name: fmt.Sprintf("Scr%c", 'A'+s), Body: &Block{Stmts: []*Stmt{}}}
		n := rapid.IntRange(1, 8).Draw(t, "ncmds")
		for i := 0; i < n; i++ {
			if rapid.IntRange(0, 5).Draw(t, "label") == 0 {
				st := sLabel(fmt.Sprintf("%s_L%d", sc.Name, i))
				if rapid.IntRange(0, 2).Draw(t, "lblscope") == 0 {
					st.Label.Scope = rapid.SampledFrom([]string{"global", "local"}).Draw(t, "lblscopev")
				}
				sc.Body.Stmts = append(sc.Body.Stmts, st)
			}
			c := &Cmd{Name: rapid.SampledFrom(c10Names).Draw(t, "name")}
			switch rapid.IntRange(0, 5).Draw(t, "form") {
			case 0:
			case 1:
				c.Parens = true
			default:
				c.Args = c10Args(t, consts)
			}
			if rapid.IntRange(0, 11).Draw(t, "endret") == 0 {
				// end / return anywhere in the stretch: what follows is dead code but must still be emitted
				c = &Cmd{Name: rapid.SampledFrom([]string{"end", "return"}).Draw(t, "endretname")}
			}
			if rapid.IntRange(0, 6).Draw(t, "inps") == 0 {
				// the command sits in a poryswitch case (selected, fallback or not selected)
				ps := &PSStmt{Var: "V"}
				keys := rapid.Permutation([]string{"A", "B", "_"}).Draw(t, "pskeys")
				for _, k := range keys[:rapid.IntRange(1, 3).Draw(t, "npskeys")] {
					cc := &Cmd{Name: c.Name, Parens: c.Parens}
					if len(c.Args) > 0 {
						cc.Args = c10Args(t, consts)
					}
					pc := &PSStmtCase{Key: k, Brace: rapid.Bool().Draw(t, "brace"), Body: &Block{Stmts: []*Stmt{sCmd(cc)}}}
					if k != "_" && rapid.IntRange(0, 3).Draw(t, "emptycase") == 0 {
						// a case may be explicitly empty: when it is the selected one, nothing is emitted for the poryswitch
						pc.Brace, pc.Body = true, &Block{Stmts: []*Stmt{}}
					}
					ps.Cases = append(ps.Cases, pc)
				}
				hasFallback := false
				for _, cs := range ps.Cases {
					hasFallback = hasFallback || cs.Key == "_"
				}
				if !hasFallback {
					ps.Cases = append(ps.Cases, &PSStmtCase{Key: "_", Body: &Block{Stmts: []*Stmt{sCmd(c)}}})
				}
				sc.Body.Stmts = append(sc.Body.Stmts, &Stmt{K: "ps", PS: ps})
				continue
			}
			sc.Body.Stmts = append(sc.Body.Stmts, sCmd(c))
		}
		f.Tops = append(f.Tops, &Top{K: "script", Script: sc})
	}
	return &C10Case{File: f, Gaps: drawGaps(t, len(PrintFile(f).Toks), true), Switches: map[string]string{"V": rapid.SampledFrom([]string{"A", "B", "zz"}).Draw(t, "swv")}}
}

func checkC10(c *C10Case) *Violation {
	st := stat("C10")
	src := c10Src(c)
	res := CompileMaybeLM(src, Opts{Optimize: true, Switches: c.Switches})
	if res.Panic != nil || res.Budget {
		return viol("crash", "%s\n--- source\n%s", res.Describe(), src)
	}
	if res.Err != nil {
		return viol("rejected", "a well-formed command sequence was rejected: %v\n--- source\n%s", res.Err, src)
	}
	// a constant applies to the statements written after its definition
	constsAt := map[string]map[string]string{}
	{
		cur := map[string]string{}
		for _, t := range c.File.Tops {
			if t.K == "const" {
				cur[t.Const.Name] = joinToks(t.Const.Val)
			}
			if t.K == "script" {
				snap := map[string]string{}
				for k, v := range cur {
					snap[k] = v
				}
				constsAt[t.Script.Name] = snap
			}
		}
	}
	resolved, rok := Resolve(c.File, c.Switches)
	if !rok {
		panic("harness: C10 generator always adds a fallback case")
	}
	bind, _ := ComputeBinding(resolved, RepoFonts(), "", 0)
	a := ParseAsm(res.Out)
	nt := false
	for _, sc := range resolved.Scripts() {
		consts := constsAt[sc.Name]
		var want []string
		for _, s := range sc.Body.Stmts {
			switch s.K {
			case "label":
				if s.Label.Scope == "global" {
					want = append(want, s.Label.Name+"::")
				} else {
					want = append(want, s.Label.Name+":")
				}
			case "cmd":
				line := "\t" + s.Cmd.Name
				var parts []string
				for _, ar := range s.Cmd.Args {
					if l, ok := bind.ArgLabel[ar]; ok {
						parts = append(parts, l)
						continue
					}
					toks := make([]string, len(ar.Toks))
					for i, tk := range ar.Toks {
						if v, ok := consts[tk]; ok {
							tk = v
						}
						toks[i] = tk
					}
					parts = append(parts, strings.Join(toks, " "))
					if len(ar.Toks) >= 3 {
						nt = true
					}
					for i, tk := range ar.Toks {
						if tk == "(" || (strings.HasPrefix(tk, "-") && len(tk) > 1 && i > 0) {
							nt = true
						}
					}
				}
				if len(parts) > 0 {
					line += " " + strings.Join(parts, ", ")
				}
				want = append(want, line)
			}
		}
		// the script's own terminator: a final end/return is the terminator, otherwise a return is added
		if n := len(sc.Body.Stmts); !(n > 0 && sc.Body.Stmts[n-1].K == "cmd" && len(sc.Body.Stmts[n-1].Cmd.Args) == 0 && (sc.Body.Stmts[n-1].Cmd.Name == "end" || sc.Body.Stmts[n-1].Cmd.Name == "return")) {
			want = append(want, "\treturn")
		}
		defs := a.Labels[sc.Name]
		if len(defs) != 1 {
			return viol("script-label", "script %s defined %d times\n--- source\n%s--- output\n%s", sc.Name, len(defs), src, res.Out)
		}
		var got []string
		for i := defs[0] + 1; i < len(a.Lines) && len(got) < len(want); i++ {
			got = append(got, a.Lines[i].Raw)
		}
		if strings.Join(got, "\n") != strings.Join(want, "\n") {
			return viol("command-lines", "script %s: emitted lines\n%s\nexpected exactly\n%s\n--- source\n%s--- output\n%s", sc.Name, strings.Join(got, "\n"), strings.Join(want, "\n"), src, res.Out)
		}
	}
	st.Eval(src, nt, func() any { return clip(src, 700) })
	return nil
}

func init() { register("C10", "TestC10_Commands", checkC10, c10Src) }

func TestC10_Regress(t *testing.T) { runRegress(t, "C10") }

func TestC10_Commands(t *testing.T) {
	st := stat("C10")
	st.SetRule("straight-line scripts of 1-8 commands (names incl. multi-byte and keyword-like identifiers; no parentheses, empty parentheses, or 1-5 arguments of 1-5 tokens over identifiers, numbers incl. hex/negative/leading zero, every operator and punctuation token, non-special keywords, balanced nested parentheses with commas inside, constants, one inline text or moves() slot) interleaved with labels, with end/return anywhere (dead code after them must still be emitted) and commands inside statement poryswitch cases (selected, fallback, unselected, explicitly empty), printed under a random layout (arguments spread over lines, comments); the script's output block must be exactly one line per command/label, name then ', '-joined space-normalised tokens, then return. non-trivial = an argument with >= 3 tokens, nested parentheses or a negative number after another token; distinct by source text")
	st.Assume("an argument is either plain tokens or exactly one inline text / moves(); no empty arguments; command names are not keywords, 'end' or 'return'")
	runRapid(t, "C10", "TestC10_Commands", genC10, checkC10, c10Src)
}
