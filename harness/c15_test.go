package harness

import (
	"fmt"
	"sort"
	"testing"

	"pgregory.net/rapid"
)

// C15: labels are exported or local exactly as written or as documented by default.

func expectedScopes(f *File) (user map[string]bool, invented map[string]string) {
	user = map[string]bool{}       // label -> must be global
	invented = map[string]string{} // label -> kind (must be local)
	def := func(scope string, defGlobal bool) bool {
		switch scope {
		case "global":
			return true
		case "local":
			return false
		}
		return defGlobal
	}
	for _, t := range f.Tops {
		switch t.K {
		case "script":
			user[t.Script.Name] = def(t.Script.Scope, true)
		case "text":
			user[t.Text.Name] = def(t.Text.Scope, true)
		case "movement":
			user[t.Movement.Name] = def(t.Movement.Scope, false)
		case "mart":
			user[t.Mart.Name] = def(t.Mart.Scope, false)
		case "mapscripts":
			user[t.Map.Name] = def(t.Map.Scope, true)
			for _, e := range t.Map.Entries {
				switch e.Kind {
				case "inline":
					invented[t.Map.Name+"_"+e.Type] = "inline map script"
				case "table":
					invented[t.Map.Name+"_"+e.Type] = "map script table"
					for i, r := range e.Rows {
						if r.Body != nil {
							invented[fmt.Sprintf("%s_%s_%d", t.Map.Name, e.Type, i)] = "inline table script"
						}
					}
				}
			}
		}
	}
	_, blocks := EntryBlocks(f)
	for _, b := range blocks {
		walkBlocks(b, func(bb *Block) {
			for _, s := range bb.Stmts {
				if s.K == "label" {
					user[s.Label.Name] = def(s.Label.Scope, false)
				}
			}
		})
	}
	return
}

func checkC15(c *FileCase) *Violation {
	st := stat("C15")
	src := fileCaseSrc(c)
	model := c.model()
	user, invented := expectedScopes(model)
	m := collectNames(model)
	kinds := map[string]bool{}
	nonDefault := false
	for _, opt := range []bool{false, true} {
		res := CompileMaybeLM(src, c.opts(opt))
		if res.Panic != nil || res.Budget {
			return viol("crash", "%s\n--- source\n%s", res.Describe(), src)
		}
		if res.Err != nil {
			st.Label("rejected")
			st.Note("last_rejection", clip(res.Err.Error()+"\n"+src, 800))
			return nil
		}
		a := ParseAsm(res.Out)
		m.noteOutput(a)
		var names []string
		for n := range a.Labels {
			names = append(names, n)
		}
		sort.Strings(names)
		for _, n := range names {
			for _, d := range a.Labels[n] {
				g := a.Lines[d].Global
				if want, ok := user[n]; ok {
					if g != want {
						return viol("user-label-scope", "opt=%v label %s is emitted with global=%v, the source (modifier or documented default) says global=%v\n--- source\n%s--- output\n%s", opt, n, g, want, src, res.Out)
					}
					continue
				}
				kind := invented[n]
				switch {
				case kind != "":
				case m.genSubLabel(n):
					kind = "sub-label"
				case isHoistedLabel(n):
					kind = "hoisted"
				default:
					// a label of a shape this harness does not know: it was not written by the author, so it must be local too
					kind = "other generated"
					st.Label("label-of-unknown-shape")
				}
				kinds[kind] = true
				if g {
					return viol("invented-label-global", "opt=%v compiler-invented %s label %s is exported (::)\n--- source\n%s--- output\n%s", opt, kind, n, src, res.Out)
				}
			}
		}
		for n := range user {
			if len(a.Labels[n]) == 0 {
				return viol("label-missing", "opt=%v label %s written in the source is not in the output\n--- source\n%s--- output\n%s", opt, n, src, res.Out)
			}
		}
	}
	topKinds := map[string]bool{}
	for _, t := range model.Tops {
		topKinds[t.K] = true
		switch t.K {
		case "script":
			nonDefault = nonDefault || t.Script.Scope == "local"
		case "text":
			nonDefault = nonDefault || t.Text.Scope == "local"
		case "movement":
			nonDefault = nonDefault || t.Movement.Scope == "global"
		case "mart":
			nonDefault = nonDefault || t.Mart.Scope == "global"
		case "mapscripts":
			nonDefault = nonDefault || t.Map.Scope == "local"
		}
	}
	for _, sc := range m.userLabels {
		if sc == "global" {
			nonDefault = true
		}
	}
	nt := len(topKinds) >= 3 && nonDefault && len(kinds) >= 2
	st.Eval(src, nt, func() any { return clip(src, 1200) }, fmt.Sprintf("invented_kinds=%d", len(kinds)))
	return nil
}

func genC15(t *rapid.T) *FileCase {
	var c *FileCase
	if rapid.IntRange(0, 2).Draw(t, "kitchen") == 0 {
		c = genKitchenCase(t, 0, 3)
	} else {
		cfg := DefaultFileCfg()
		cfg.CF.MaxDepth = 3
		cfg.MaxTops = 7
		c = genFileCase(t, cfg, 0)
	}
	// ':' map-script entries and table rows that name a script of this file (written before or after the
	// mapscripts statement, with any modifier): being referred to does not change a script's scope
	if scs := c.File.Scripts(); len(scs) > 0 && rapid.IntRange(0, 2).Draw(t, "refscripts") == 0 {
		for _, tp := range c.File.Tops {
			if tp.K != "mapscripts" {
				continue
			}
			for _, e := range tp.Map.Entries {
				if e.Kind == "plain" && rapid.Bool().Draw(t, "refentry") {
					e.Label = scs[rapid.IntRange(0, len(scs)-1).Draw(t, "refwhich")].Name
				}
				for _, r := range e.Rows {
					if r.Body == nil && rapid.Bool().Draw(t, "refrow") {
						r.Label = scs[rapid.IntRange(0, len(scs)-1).Draw(t, "refwhich")].Name
					}
				}
			}
		}
	}
	// a plain label whose name ends in the name of its script (LeaveShop in script Shop) is a label like any other
	if rapid.IntRange(0, 3).Draw(t, "suffixlabel") == 0 {
		for _, sc := range c.File.Scripts() {
			done := false
			walkStmts(sc.Body, func(s *Stmt) {
				if !done && s.K == "label" && s.Label.Scope != "global" {
					old := s.Label.Name
					renameLabel(c.File, old, "Leave"+sc.Name)
					done = true
				}
			})
			if done {
				break
			}
		}
	}
	// names of generated shape that clash with nothing: the documented scopes apply to them like to any other name
	n := rapid.IntRange(0, 2).Draw(t, "shapednames")
	for i := 0; i < n; i++ {
		scope := rapid.SampledFrom([]string{"", "global", "local"}).Draw(t, "shapedscope")
		switch rapid.IntRange(0, 2).Draw(t, "shapedkind") {
		case 0:
			c.File.Tops = append(c.File.Tops, &Top{K: "text", Text: &TextStmt{Name: fmt.Sprintf("Lobby%d_Text_%d", i, rapid.IntRange(0, 9).Draw(t, "shapedn")), Scope: scope, Val: &TextVal{Lit: &StrLit{Parts: []string{"shaped"}}}}})
		case 1:
			c.File.Tops = append(c.File.Tops, &Top{K: "movement", Movement: &Movement{Name: fmt.Sprintf("Lobby%d_Movement_%d", i, rapid.IntRange(0, 9).Draw(t, "shapedn")), Scope: scope, Steps: []*Step{{Name: "walk_up"}}}})
		default:
			c.File.Tops = append(c.File.Tops, &Top{K: "script", Script: &Script{Name: fmt.Sprintf("Lobby%d_%d", i, rapid.IntRange(1, 9).Draw(t, "shapedn")), Scope: scope, Body: &Block{Stmts: []*Stmt{sCmd(&Cmd{Name: "shaped"})}}}})
		}
	}
	// a text whose body is a poryswitch keeps its modifier (or the default) like any other text
	nps := rapid.IntRange(0, 2).Draw(t, "pstexts")
	for i := 0; i < nps; i++ {
		scope := rapid.SampledFrom([]string{"", "global", "local", "local"}).Draw(t, "pstextscope")
		ps := &PSText{Var: "V", Cases: []*PSTextCase{
			{Key: rapid.SampledFrom([]string{"A", "B"}).Draw(t, "pstextkey"), Brace: rapid.Bool().Draw(t, "pstextbrace"), Val: &TextVal{Lit: &StrLit{Parts: []string{"chosen"}}}},
			{Key: "_", Val: &TextVal{Lit: &StrLit{Parts: []string{"fallback"}}}},
		}}
		if c.Switches == nil {
			c.Switches = map[string]string{"V": rapid.SampledFrom([]string{"A", "B", "zz"}).Draw(t, "pstextV"), "W": "A"}
		}
		tp := &Top{K: "text", Text: &TextStmt{Name: fmt.Sprintf("SwitchedText%d", i), Scope: scope, PS: ps}}
		at := rapid.IntRange(0, len(c.File.Tops)).Draw(t, "pstextat")
		c.File.Tops = append(c.File.Tops[:at:at], append([]*Top{tp}, c.File.Tops[at:]...)...)
	}
	return c
}

func init() { register("C15", "TestC15_Scopes", checkC15, fileCaseSrc) }

func TestC15_Regress(t *testing.T) { runRegress(t, "C15") }

func TestC15_Scopes(t *testing.T) {
	st := stat("C15")
	st.SetRule("whole files of up to 7 top-level statements of every kind, each with no modifier, (global) or (local), texts also with a poryswitch body; labels inside scripts with and without modifiers; programs that make the compiler invent sub-labels, hoisted text/movement labels, inline map scripts and tables; every label definition of the output (optimize off and on) is classified by the model and its '::' / ':' must match the modifier, the documented default (script/text/mapscripts global, movement/mart/in-script labels local) or 'invented => local'. non-trivial = >= 3 statement kinds, >= 1 non-default modifier and >= 2 kinds of invented labels; distinct by source text")
	runRapid(t, "C15", "TestC15_Scopes", genC15, checkC15, fileCaseSrc)
}

// renameLabel renames a user label and every command argument that names it.
func renameLabel(f *File, old, new string) {
	for _, tp := range f.Tops {
		var blocks []*Block
		if tp.K == "script" {
			blocks = append(blocks, tp.Script.Body)
		}
		if tp.K == "mapscripts" {
			for _, e := range tp.Map.Entries {
				blocks = append(blocks, e.Body)
				for _, r := range e.Rows {
					blocks = append(blocks, r.Body)
				}
			}
		}
		for _, b := range blocks {
			walkStmts(b, func(s *Stmt) {
				if s.K == "label" && s.Label.Name == old {
					s.Label.Name = new
				}
				if s.K == "cmd" {
					for _, a := range s.Cmd.Args {
						for i, tk := range a.Toks {
							if tk == old {
								a.Toks[i] = new
							}
						}
					}
				}
			})
		}
	}
}
