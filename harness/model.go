package harness

// Program model: the harness' own description of a Poryscript file. It is
// unrelated to /repo/ast. Every node is a tagged struct so that a whole case
// round-trips through JSON (replay and regression files).

// File is a whole source file.
type File struct {
	Tops []*Top `json:"tops"`
}

// Top is one top-level statement. Exactly one pointer is set, named by K.
type Top struct {
	K        string      `json:"k"` // script text movement mart mapscripts raw const
	Script   *Script     `json:"script,omitempty"`
	Text     *TextStmt   `json:"text,omitempty"`
	Movement *Movement   `json:"movement,omitempty"`
	Mart     *Mart       `json:"mart,omitempty"`
	Map      *MapScripts `json:"map,omitempty"`
	Raw      *Raw        `json:"raw,omitempty"`
	Const    *Const      `json:"const,omitempty"`
	Inj      bool        `json:"inj,omitempty"` // C20: this node is the injected fault
}

type Script struct {
	Name  string `json:"name"`
	Scope string `json:"scope,omitempty"` // "", "global", "local"
	Body  *Block `json:"body"`
	Span  int    `json:"-"`
}

type TextStmt struct {
	Name  string   `json:"name"`
	Scope string   `json:"scope,omitempty"`
	Val   *TextVal `json:"val,omitempty"`
	PS    *PSText  `json:"ps,omitempty"`
	Span  int      `json:"-"`
}

type Movement struct {
	Name  string  `json:"name"`
	Scope string  `json:"scope,omitempty"`
	Steps []*Step `json:"steps"`
	Span  int     `json:"-"`
}

type Mart struct {
	Name  string  `json:"name"`
	Scope string  `json:"scope,omitempty"`
	Items []*Item `json:"items"`
	Span  int     `json:"-"`
}

type MapScripts struct {
	Name    string     `json:"name"`
	Scope   string     `json:"scope,omitempty"`
	Entries []*MSEntry `json:"entries"`
}

// MSEntry: Kind "plain" (TYPE: Label), "inline" (TYPE { body }), "table" (TYPE [ rows ]).
type MSEntry struct {
	Kind  string   `json:"kind"`
	Type  string   `json:"type"`
	Label string   `json:"label,omitempty"`
	Body  *Block   `json:"body,omitempty"`
	Rows  []*MSRow `json:"rows,omitempty"`
	Span  int      `json:"-"`
}

type MSRow struct {
	Var   []string `json:"var"`
	Val   []string `json:"val"`
	Label string   `json:"label,omitempty"`
	Body  *Block   `json:"body,omitempty"`
	Span  int      `json:"-"`
}

type Raw struct {
	Text    string `json:"text"` // between the backticks
	Span    int    `json:"-"`
	StrSpan int    `json:"-"` // span of the back-quoted literal
	// LineSpans[i] = span id of the i-th line of the (trimmed) raw text
}

type Const struct {
	Name string   `json:"name"`
	Val  []string `json:"val"`
	Span int      `json:"-"`
}

// Block is a statement list.
type Block struct {
	Stmts []*Stmt `json:"stmts"`
}

// Stmt is one statement; K names which pointer is set.
// K: cmd label if while dowhile break continue switch ps
type Stmt struct {
	K      string  `json:"k"`
	Cmd    *Cmd    `json:"cmd,omitempty"`
	Label  *LabelS `json:"label,omitempty"`
	If     *If     `json:"if,omitempty"`
	While  *While  `json:"while,omitempty"`
	Do     *DoWh   `json:"do,omitempty"`
	Switch *Switch `json:"switch,omitempty"`
	PS     *PSStmt `json:"ps,omitempty"`
	Span   int     `json:"-"`
	Inj    bool    `json:"inj,omitempty"`
}

// Cmd is a command statement. "end", "return" and "goto" are commands too.
type Cmd struct {
	Name   string `json:"name"`
	Parens bool   `json:"parens,omitempty"` // written with ( ) even when there are no args
	Args   []*Arg `json:"args,omitempty"`
	Span   int    `json:"-"`
}

// Arg is one comma-separated argument: plain tokens, or one inline text, or one moves().
type Arg struct {
	Toks  []string `json:"toks,omitempty"`
	Text  *TextVal `json:"text,omitempty"`
	Moves []*Step  `json:"moves,omitempty"`
	IsMv  bool     `json:"ismv,omitempty"` // moves() even when the list is empty
	Span  int      `json:"-"`
}

type LabelS struct {
	Name  string `json:"name"`
	Scope string `json:"scope,omitempty"`
}

type Arm struct {
	Cond *Expr  `json:"cond"`
	Body *Block `json:"body"`
}

type If struct {
	Arms []*Arm `json:"arms"`
	Else *Block `json:"else,omitempty"`
}

type While struct {
	Cond *Expr  `json:"cond,omitempty"` // nil = condition-less
	Body *Block `json:"body"`
}

type DoWh struct {
	Body *Block `json:"body"`
	Cond *Expr  `json:"cond"`
}

type Switch struct {
	Var    []string `json:"var,omitempty"`  // tokens inside var( )
	Auto   *Cmd     `json:"auto,omitempty"` // AutoVar command operand
	Cases  []*Case  `json:"cases"`
	OpSpan int      `json:"-"` // span of the operand: var( ... ) or the AutoVar command
}

type Case struct {
	Val       []string `json:"val,omitempty"`
	IsDefault bool     `json:"default,omitempty"`
	Body      *Block   `json:"body"`
	Span      int      `json:"-"`
	Inj       bool     `json:"inj,omitempty"`
}

// Expr: K = and or not paren leaf
type Expr struct {
	K    string `json:"k"`
	L    *Expr  `json:"l,omitempty"` // and/or left; not/paren operand
	R    *Expr  `json:"r,omitempty"`
	Leaf *Leaf  `json:"leaf,omitempty"`
}

// Leaf: Kind flag|var|defeated|auto. Op: "" (bare), "!" (negated operand) or a comparison operator.
type Leaf struct {
	Kind    string   `json:"kind"`
	Operand []string `json:"operand,omitempty"`
	Auto    *Cmd     `json:"auto,omitempty"`
	Op      string   `json:"op,omitempty"`
	Value   []string `json:"value,omitempty"`
	Wrap    bool     `json:"wrap,omitempty"` // value( ... )
	Span    int      `json:"-"`
}

// ---- text ----

type StrLit struct {
	Type  string   `json:"type,omitempty"`
	Parts []string `json:"parts"`          // contents between the quotes, verbatim source
	Seps  []string `json:"seps,omitempty"` // whitespace between part i and i+1 (default "\n")
}

type FParam struct {
	Name string `json:"name,omitempty"` // "" = positional
	Val  string `json:"val"`            // token text as written
}

type TextVal struct {
	Lit     *StrLit   `json:"lit"`
	Format  bool      `json:"format,omitempty"`
	Params  []*FParam `json:"params,omitempty"`
	Span    int       `json:"-"`
	LitSpan int       `json:"-"` // span of the string literal alone (type prefix + parts)
}

// ---- poryswitch ----

type PSStmtCase struct {
	Key   string `json:"key"`
	Brace bool   `json:"brace,omitempty"`
	Body  *Block `json:"body"` // colon form: exactly one statement
}

type PSStmt struct {
	Var   string        `json:"var"`
	Cases []*PSStmtCase `json:"cases"`
}

type PSTextCase struct {
	Key   string   `json:"key"`
	Brace bool     `json:"brace,omitempty"`
	Val   *TextVal `json:"val"`
}

type PSText struct {
	Var   string        `json:"var"`
	Cases []*PSTextCase `json:"cases"`
}

type PSListCase struct {
	Key   string  `json:"key"`
	Brace bool    `json:"brace,omitempty"`
	Steps []*Step `json:"steps,omitempty"`
	Items []*Item `json:"items,omitempty"`
}

type PSList struct {
	Var   string        `json:"var"`
	Cases []*PSListCase `json:"cases"`
}

// Step is one entry of a movement list: a step (with optional multiplier), a comma, or a poryswitch.
type Step struct {
	Name  string  `json:"name,omitempty"`
	Mul   string  `json:"mul,omitempty"` // multiplier token text
	Comma bool    `json:"comma,omitempty"`
	PS    *PSList `json:"ps,omitempty"`
	Span  int     `json:"-"`
}

// Item is one entry of a mart list: an item or a poryswitch.
type Item struct {
	Name string  `json:"name,omitempty"`
	PS   *PSList `json:"ps,omitempty"`
	Span int     `json:"-"`
}

// ---- small constructors ----

func sCmd(c *Cmd) *Stmt     { return &Stmt{K: "cmd", Cmd: c} }
func sLabel(n string) *Stmt { return &Stmt{K: "label", Label: &LabelS{Name: n}} }
func sBreak() *Stmt         { return &Stmt{K: "break"} }
func sContinue() *Stmt      { return &Stmt{K: "continue"} }
func eLeaf(l *Leaf) *Expr   { return &Expr{K: "leaf", Leaf: l} }
func eAnd(l, r *Expr) *Expr { return &Expr{K: "and", L: l, R: r} }
func eOr(l, r *Expr) *Expr  { return &Expr{K: "or", L: l, R: r} }
func eNot(e *Expr) *Expr    { return &Expr{K: "not", L: e} }
func ePar(e *Expr) *Expr    { return &Expr{K: "paren", L: e} }
func plainArgs(a ...string) []*Arg {
	var out []*Arg
	for _, s := range a {
		out = append(out, &Arg{Toks: []string{s}})
	}
	return out
}

// Scripts returns the script statements of the file in order.
func (f *File) Scripts() []*Script {
	var out []*Script
	for _, t := range f.Tops {
		if t.K == "script" {
			out = append(out, t.Script)
		}
	}
	return out
}

// walkBlocks calls fn for b and every block nested in it (statement poryswitch cases included).
func walkBlocks(b *Block, fn func(*Block)) {
	if b == nil {
		return
	}
	fn(b)
	for _, s := range b.Stmts {
		switch s.K {
		case "if":
			for _, a := range s.If.Arms {
				walkBlocks(a.Body, fn)
			}
			walkBlocks(s.If.Else, fn)
		case "while":
			walkBlocks(s.While.Body, fn)
		case "dowhile":
			walkBlocks(s.Do.Body, fn)
		case "switch":
			for _, c := range s.Switch.Cases {
				walkBlocks(c.Body, fn)
			}
		case "ps":
			for _, c := range s.PS.Cases {
				walkBlocks(c.Body, fn)
			}
		}
	}
}

// walkStmts visits every statement in b, recursively, in source order.
func walkStmts(b *Block, fn func(*Stmt)) {
	walkBlocks(b, func(bb *Block) {
		// walkBlocks is pre-order over blocks, which is not source order for
		// statements; callers that need source order use walkStmtsOrdered.
		for _, s := range bb.Stmts {
			fn(s)
		}
	})
}

// exprs of a statement (conditions), in source order.
func stmtConds(s *Stmt) []*Expr {
	switch s.K {
	case "if":
		var out []*Expr
		for _, a := range s.If.Arms {
			out = append(out, a.Cond)
		}
		return out
	case "while":
		if s.While.Cond != nil {
			return []*Expr{s.While.Cond}
		}
	case "dowhile":
		return []*Expr{s.Do.Cond}
	}
	return nil
}

func walkLeaves(e *Expr, fn func(*Leaf)) {
	if e == nil {
		return
	}
	switch e.K {
	case "leaf":
		fn(e.Leaf)
	case "and", "or":
		walkLeaves(e.L, fn)
		walkLeaves(e.R, fn)
	default:
		walkLeaves(e.L, fn)
	}
}
