//go:build verif

package harness

import "github.com/huderlem/poryscript/lexer"

func setBudget(n int64) { lexer.VerifTokenBudget = n }

func isBudgetPanic(r any) bool {
	_, ok := r.(lexer.VerifBudgetExceeded)
	return ok
}

const hooksEnabled = true
