package harness

import (
	"regexp"
	"sort"
	"strings"

	"pgregory.net/rapid"
)

// FileCase is the case type shared by the whole-file properties.
type FileCase struct {
	File     *File             `json:"file"`
	Worlds   []uint64          `json:"worlds,omitempty"`
	Auto     AutoCfg           `json:"auto,omitempty"`
	Switches map[string]string `json:"switches,omitempty"`
	Meta     map[string]string `json:"meta,omitempty"`
}

func fileCaseSrc(c *FileCase) string { return CanonMaybeDense(c.File) }

func (c *FileCase) opts(optimize bool) Opts {
	return Opts{Optimize: optimize, Auto: c.Auto, FontPath: "@repo", Switches: c.Switches}
}

func (c *FileCase) worlds() []*World {
	var w []*World
	for _, s := range c.Worlds {
		w = append(w, &World{Seed: s})
	}
	return w
}

// model is the program the structural oracles reason about: poryswitches resolved
// for the case's switches, constants written out.
func (c *FileCase) model() *File {
	f := c.File
	if c.Switches != nil {
		r, ok := Resolve(f, c.Switches)
		if !ok {
			panic("harness: kitchen-sink files always have a fallback case")
		}
		f = r
	}
	return ExpandConsts(f)
}

// KitchenCfg turns every feature on at once: AutoVar conditions, statement
// poryswitch (with the two known-finding exclusions, which are C12's / C20's
// subject), symbolic case values, inline data, all top-level kinds.
func KitchenCfg() FileCfg {
	cfg := DefaultFileCfg()
	cfg.CF.Auto = c16Auto
	cfg.CF.AutoP = 5
	cfg.CF.PS = 8
	cfg.CF.PSNoDirectContinue = true
	cfg.CF.PSNestedFallback = true
	cfg.CF.PSAlwaysFallback = true
	cfg.CF.SymCases = true
	return cfg
}

// genKitchenCase draws a whole file with all features and constants.
func genKitchenCase(t *rapid.T, nWorlds int, maxDepth int) *FileCase {
	cfg := KitchenCfg()
	cfg.CF.MaxDepth = maxDepth
	cfg.MaxTops = 5
	c := &FileCase{File: GenFile(t, cfg), Auto: c16Auto}
	constify(t, c.File, c16Auto)
	c.Switches = map[string]string{"V": rapid.SampledFrom([]string{"A", "B", "1", "zz"}).Draw(t, "swV"), "W": rapid.SampledFrom([]string{"A", "B", "q"}).Draw(t, "swW")}
	c.Meta = map[string]string{"kitchen": "1"}
	base := rapid.Uint64Range(1, 1<<40).Draw(t, "world")
	for i := 0; i < nWorlds; i++ {
		c.Worlds = append(c.Worlds, base+uint64(i))
	}
	return c
}

func genFileCase(t *rapid.T, cfg FileCfg, nWorlds int) *FileCase {
	c := &FileCase{File: GenFile(t, cfg)}
	base := rapid.Uint64Range(1, 1<<40).Draw(t, "world")
	for i := 0; i < nWorlds; i++ {
		c.Worlds = append(c.Worlds, base+uint64(i))
	}
	return c
}

// ---- facts about a model that several structural oracles need ----

type modelNames struct {
	entries    []string // script and inline map script names, in source order
	entrySet   map[string]bool
	userLabels map[string]string // label written inside a script -> scope ("", "global", "local")
	topLevel   map[string]bool   // names of every top-level definition (scripts, texts, movements, marts, mapscripts, tables)
	generated  map[string]bool   // labels found in an output that the author did not write (see noteOutput)
}

// noteOutput records every label an output defines inside a script block that is
// neither written by the author nor a top-level / hoisted name: whatever its
// shape, it is a compiler-generated sub-label.
func (m *modelNames) noteOutput(a *Asm) {
	if m.generated == nil {
		m.generated = map[string]bool{}
	}
	for name, defs := range a.Labels {
		if _, user := m.userLabels[name]; user || m.topLevel[name] || isHoistedLabel(name) {
			continue
		}
		for _, d := range defs {
			if inScript(a, d, m) {
				m.generated[name] = true
			}
		}
	}
}

func collectNames(f *File) *modelNames {
	m := &modelNames{entrySet: map[string]bool{}, userLabels: map[string]string{}, topLevel: map[string]bool{}}
	names, blocks := EntryBlocks(f)
	m.entries = names
	for _, n := range names {
		m.entrySet[n] = true
		m.topLevel[n] = true
		walkBlocks(blocks[n], func(b *Block) {
			for _, s := range b.Stmts {
				if s.K == "label" {
					m.userLabels[s.Label.Name] = s.Label.Scope
				}
			}
		})
	}
	for _, t := range f.Tops {
		switch t.K {
		case "text":
			m.topLevel[t.Text.Name] = true
		case "movement":
			m.topLevel[t.Movement.Name] = true
		case "mart":
			m.topLevel[t.Mart.Name] = true
		case "mapscripts":
			m.topLevel[t.Map.Name] = true
			for _, e := range t.Map.Entries {
				if e.Kind == "table" {
					m.topLevel[t.Map.Name+"_"+e.Type] = true
				}
			}
		}
	}
	return m
}

var subLabelRe = regexp.MustCompile(`^(.+)_(-?\d+)$`)

// genSubLabel reports whether name is a compiler-generated sub-label of a known entry.
func (m *modelNames) genSubLabel(name string) bool {
	if _, user := m.userLabels[name]; user {
		return false
	}
	if m.topLevel[name] {
		return false
	}
	if m.generated[name] {
		return true
	}
	mm := subLabelRe.FindStringSubmatch(name)
	return mm != nil && m.entrySet[mm[1]]
}

func isHoistedLabel(name string) bool { return genDataRe.MatchString(name) }

// jumpTargets lists the label operands of an instruction that transfer control.
func jumpTargets(l ALine) []string {
	switch l.Op {
	case "goto":
		if len(l.Args) >= 1 {
			return l.Args[:1]
		}
	case "goto_if_set", "goto_if_unset", "goto_if", "case", "goto_if_defeated", "goto_if_undefeated":
		if len(l.Args) >= 2 {
			return l.Args[1:2]
		}
	case "goto_if_lt", "goto_if_eq", "goto_if_gt", "goto_if_le", "goto_if_ge", "goto_if_ne":
		if len(l.Args) >= 1 {
			return l.Args[:1]
		}
	}
	return nil
}

func sortedSet(m map[string]bool) string {
	var k []string
	for x := range m {
		k = append(k, x)
	}
	sort.Strings(k)
	return strings.Join(k, ",")
}
