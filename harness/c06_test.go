package harness

import (
	"fmt"
	"strings"
	"testing"

	"pgregory.net/rapid"
)

// C06: inline text and moves() are hoisted to labels that denote exactly that content.

type C06Case struct {
	File     *File             `json:"file"`
	Switches map[string]string `json:"switches,omitempty"`
	Auto     AutoCfg           `json:"auto,omitempty"`
	Clash    string            `json:"clash,omitempty"` // "text" / "movement": a user statement named like a generated label was added
	Name     string            `json:"name,omitempty"`  // the clashing name
}

func c06Src(c *C06Case) string { return CanonMaybeDense(c.File) }

// findCmdLines maps command names (unique per file) to their output lines.
func findCmdLines(a *Asm) map[string][]ALine {
	m := map[string][]ALine{}
	for _, l := range a.Lines {
		if l.Op != "" {
			m[l.Op] = append(m[l.Op], l)
		}
	}
	return m
}

func checkC06(c *C06Case) *Violation {
	st := stat("C06")
	src := c06Src(c)
	fc := RepoFonts()
	model := c.File
	if c.Switches != nil {
		r, ok := Resolve(model, c.Switches)
		if !ok {
			panic("harness: C06 poryswitches always have a fallback")
		}
		model = r
	}
	bind, ferr := ComputeBinding(model, fc, "", 0)
	if ferr != nil {
		panic("harness: format failed in the generated domain: " + ferr.Error())
	}
	res := CompileMaybeLM(src, Opts{Optimize: true, Auto: c.Auto, FontPath: "@repo", Switches: c.Switches})
	if res.Panic != nil || res.Budget {
		return viol("crash", "%s\n--- source\n%s", res.Describe(), src)
	}
	if c.Clash != "" {
		_, produced := bind.Labels[c.Name]
		if produced {
			if res.Err == nil {
				return viol("clash-accepted", "the %s statement %s has the name of a generated label, but the program was accepted (silent overwrite)\n--- source\n%s--- output\n%s", c.Clash, c.Name, src, res.Out)
			}
			st.Eval(src, true, func() any { return clip(src, 900) }, "clash-rejected")
			return nil
		}
	}
	if res.Err != nil {
		st.Label("rejected")
		st.Note("last_rejection", clip(res.Err.Error()+"\n"+src, 800))
		return nil
	}
	a := ParseAsm(res.Out)
	cmdLines := findCmdLines(a)
	detail := func(f string, args ...any) string {
		return fmt.Sprintf(f, args...) + "\n--- source\n" + src + "--- output\n" + res.Out
	}
	// every command line carries exactly the expected label in exactly that slot
	nInline := 0
	var verr *Violation
	seen := map[*Cmd]bool{}
	_, blocks := EntryBlocks(model)
	names, _ := EntryBlocks(model)
	for _, n := range names {
		walkCmdsOrdered(blocks[n], func(cmd *Cmd) {
			if verr != nil || seen[cmd] {
				return
			}
			seen[cmd] = true
			has := false
			for _, ar := range cmd.Args {
				if ar.Text != nil || ar.IsMv || ar.Moves != nil {
					has = true
				}
			}
			if !has {
				return
			}
			nInline++
			// commands with inline data are unique in the generated domain: unique name, or a unique U<n> argument
			var lines []ALine
			for _, l := range cmdLines[cmd.Name] {
				uniq := ""
				for _, ar := range cmd.Args {
					if len(ar.Toks) == 1 && strings.HasPrefix(ar.Toks[0], "U_") {
						uniq = ar.Toks[0]
					}
				}
				if uniq == "" {
					lines = append(lines, l)
					continue
				}
				for _, x := range l.Args {
					if x == uniq {
						lines = append(lines, l)
					}
				}
			}
			if len(lines) != 1 {
				verr = viol("command-line-count", "%s", detail("command %s appears %d times in the output", RenderCmd(cmd), len(lines)))
				return
			}
			want := make([]string, len(cmd.Args))
			for i, ar := range cmd.Args {
				if l, ok := bind.ArgLabel[ar]; ok {
					want[i] = l
				} else {
					want[i] = joinToks(ar.Toks)
				}
			}
			wantLine := "\t" + cmd.Name + " " + strings.Join(want, ", ")
			if lines[0].Raw != wantLine {
				verr = viol("argument-label", "%s", detail("command line is %q, expected %q", lines[0].Raw, wantLine))
			}
		})
	}
	if verr != nil {
		return verr
	}
	// every expected label is defined once, local, with exactly its content
	for _, lbl := range bind.Order {
		h := bind.Labels[lbl]
		defs := a.Labels[lbl]
		if len(defs) != 1 {
			return viol("label-definition-count", "%s", detail("hoisted label %s is defined %d times", lbl, len(defs)))
		}
		if a.Lines[defs[0]].Global {
			return viol("hoisted-label-global", "%s", detail("hoisted label %s is exported (::)", lbl))
		}
		got := rawLines(a.blockAfter(lbl))
		var want []string
		if h.Text {
			want = textDirectives(h.Value, h.Type)
		} else {
			for _, s := range h.Steps {
				want = append(want, "\t"+s)
			}
		}
		if strings.Join(got, "\n") != strings.Join(want, "\n") {
			return viol("hoisted-content", "%s", detail("content under %s is\n%s\nexpected\n%s", lbl, strings.Join(got, "\n"), strings.Join(want, "\n")))
		}
	}
	// no other hoisted label exists
	for l := range a.Labels {
		if isHoistedLabel(l) && bind.Labels[l] == nil && l != c.Name {
			return viol("unexpected-hoisted-label", "%s", detail("label %s is defined but no inline argument owns it", l))
		}
	}
	// non-trivial: >= 2 scripts, content repeated across scripts, >= 2 string types
	owners := map[string]bool{}
	types := map[string]bool{}
	for _, h := range bind.Labels {
		owners[h.Label[:strings.LastIndex(h.Label[:strings.LastIndex(h.Label, "_")], "_")]] = true
		if h.Text {
			types[h.Type] = true
		}
	}
	shared := len(bind.ArgLabel) > len(bind.Labels)
	nt := len(owners) >= 2 && shared && len(types) >= 2
	st.Eval(src, nt, func() any { return clip(src, 1500) }, fmt.Sprintf("labels=%d", min(len(bind.Labels), 8)))
	st.Add("inline_commands", int64(nInline))
	return nil
}

var c06Auto = AutoCfg{"msgbox": {VarName: "VAR_RESULT"}, "checkitem": {VarName: "VAR_RESULT"}, "yesnobox": {VarName: "VAR_0x8004"}}

func genC06(t *rapid.T) *C06Case {
	cfg := DefaultFileCfg()
	cfg.CF.Auto = c06Auto
	cfg.CF.AutoP = 4
	cfg.CF.NoGoto = true
	cfg.CF.MaxDepth = 3
	cfg.Raws, cfg.Marts = false, false
	cfg.MaxTops = 5
	withPS := rapid.IntRange(0, 2).Draw(t, "withps") == 0
	if withPS {
		// inline data inside selected, fallback and unselected poryswitch cases
		cfg.CF.PS = 6
		cfg.CF.PSNoDirectContinue = true
		cfg.CF.PSNestedFallback = true
		cfg.CF.PSAlwaysFallback = true
	}
	c := &C06Case{File: GenFile(t, cfg), Auto: c06Auto}
	if withPS {
		c.Switches = map[string]string{"V": rapid.SampledFrom([]string{"A", "B", "1", "zz"}).Draw(t, "swV"), "W": rapid.SampledFrom([]string{"A", "B", "q"}).Draw(t, "swW")}
	}
	if scs := c.File.Scripts(); len(scs) >= 2 && rapid.IntRange(0, 4).Draw(t, "prefixname") == 0 {
		// one script is named like the stem of another script's generated labels (Route1_Text_Sign next to
		// Route1): numbering is per owning script, not per label prefix
		i := rapid.IntRange(0, len(scs)-1).Draw(t, "prefixwho")
		j := rapid.IntRange(0, len(scs)-2).Draw(t, "prefixof")
		if j >= i {
			j++
		}
		renameIdent(c.File, scs[i].Name, scs[j].Name+rapid.SampledFrom([]string{"_Text_Sign", "_Movement_Walk", "_Text_", "_Text_0x"}).Draw(t, "prefixstem"))
	}
	if rapid.IntRange(0, 5).Draw(t, "constnamedliketext") == 0 {
		// a constant spelled like the whole content of an inline string: text content is never substituted
		name := rapid.SampledFrom([]string{"Hello", "x"}).Draw(t, "constname")
		c.File.Tops = append([]*Top{{K: "const", Const: &Const{Name: name, Val: []string{"Bye", "now"}}}}, c.File.Tops...)
	}
	// AutoVar commands may occur several times: make each occurrence identifiable
	{
		names, blocks := EntryBlocks(c.File)
		n := 0
		for _, nm := range names {
			walkCmdsOrdered(blocks[nm], func(cmd *Cmd) {
				if _, ok := c06Auto[cmd.Name]; ok {
					n++
					cmd.Args = append(cmd.Args, &Arg{Toks: []string{fmt.Sprintf("U_%d", n)}})
				}
			})
		}
	}
	if rapid.IntRange(0, 5).Draw(t, "clash") == 0 {
		// a user statement named like a generated label
		names, _ := EntryBlocks(c.File)
		if len(names) > 0 {
			owner := rapid.SampledFrom(names).Draw(t, "clashowner")
			n := rapid.IntRange(0, 2).Draw(t, "clashn")
			if rapid.Bool().Draw(t, "clashtext") {
				c.Clash, c.Name = "text", fmt.Sprintf("%s_Text_%d", owner, n)
				tx := &Top{K: "text", Text: &TextStmt{Name: c.Name, Scope: rapid.SampledFrom([]string{"", "global", "local"}).Draw(t, "clashscope"), Val: &TextVal{Lit: &StrLit{Parts: []string{"user text"}}}}}
				pos := rapid.IntRange(0, len(c.File.Tops)).Draw(t, "clashpos") // before or after the script that produces the label
				c.File.Tops = append(c.File.Tops[:pos], append([]*Top{tx}, c.File.Tops[pos:]...)...)
			} else {
				c.Clash, c.Name = "movement", fmt.Sprintf("%s_Movement_%d", owner, n)
				mv := &Top{K: "movement", Movement: &Movement{Name: c.Name, Scope: rapid.SampledFrom([]string{"", "global", "local"}).Draw(t, "clashscope"), Steps: []*Step{{Name: "walk_up"}}}}
				pos := rapid.IntRange(0, len(c.File.Tops)).Draw(t, "clashpos")
				c.File.Tops = append(c.File.Tops[:pos], append([]*Top{mv}, c.File.Tops[pos:]...)...)
			}
		}
	}
	return c
}

func init() { register("C06", "TestC06_Hoist", checkC06, c06Src) }

func TestC06_Regress(t *testing.T) { runRegress(t, "C06") }

func TestC06_Hoist(t *testing.T) {
	st := stat("C06")
	st.SetRule("files of up to 5 scripts / mapscripts with inline scripts / texts / movements whose commands (also AutoVar commands inside conditions and switch operands) carry inline strings (plain, ascii/braille/custom typed, multi-part, format() with positional and named parameters) and moves() drawn from a small pool so repeats within and across scripts and string types are frequent; the harness' binding model predicts label and content for every argument slot; 1 in 5 files names one script like the stem of another script's generated labels (ScrB_Text_Sign next to ScrB); 1 in 6 cases adds a text/movement statement named like a generated label (must be rejected exactly when that label is really produced). non-trivial = >= 2 owning scripts, >= 1 content shared by several arguments and >= 2 string types (or a rejected clash); distinct by source text")
	st.Assume("format() content is taken from the exported FormatText (C07 checks it)", "sharing is demanded for identical written content only")
	runRapid(t, "C06", "TestC06_Hoist", genC06, checkC06, c06Src)
}

// renameIdent renames a script and every reference to it (command arguments, ':' map-script entries and rows).
func renameIdent(f *File, old, new string) {
	fix := func(b *Block) {
		walkStmts(b, func(s *Stmt) {
			if s.K == "cmd" {
				for _, a := range s.Cmd.Args {
					for i, tk := range a.Toks {
						if tk == old {
							a.Toks[i] = new
						}
					}
				}
			}
		})
	}
	for _, tp := range f.Tops {
		switch tp.K {
		case "script":
			if tp.Script.Name == old {
				tp.Script.Name = new
			}
			fix(tp.Script.Body)
		case "mapscripts":
			for _, e := range tp.Map.Entries {
				if e.Label == old {
					e.Label = new
				}
				fix(e.Body)
				for _, r := range e.Rows {
					if r.Label == old {
						r.Label = new
					}
					fix(r.Body)
				}
			}
		}
	}
}
