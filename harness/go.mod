module verifharness

go 1.23

require (
	github.com/huderlem/poryscript v0.0.0
	pgregory.net/rapid v1.3.0
)

replace github.com/huderlem/poryscript => /repo
