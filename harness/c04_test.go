package harness

import (
	"fmt"
	"sort"
	"strings"
	"testing"

	"pgregory.net/rapid"
)

// C04: emitted assembly is closed: labels unique, references resolved, no run-off.

// closureCheck runs the structural clauses of C04 on one output.
func closureCheck(f *File, out string) *Violation {
	m := collectNames(f)
	a := ParseAsm(out)
	m.noteOutput(a)
	// (i) every label defined exactly once
	var dups []string
	for n, defs := range a.Labels {
		if len(defs) > 1 {
			dups = append(dups, n)
		}
	}
	if len(dups) > 0 {
		sort.Strings(dups)
		return viol("duplicate-label", "labels defined more than once: %s", strings.Join(dups, ", "))
	}
	// (iii) every label the author wrote inside a script is defined exactly once
	var missing []string
	for n := range m.userLabels {
		if len(a.Labels[n]) != 1 {
			missing = append(missing, n)
		}
	}
	if len(missing) > 0 {
		sort.Strings(missing)
		return viol("user-label-lost", "labels written in the source but not defined in the output: %s", strings.Join(missing, ", "))
	}
	// (ii) references made by generated jumps, cases, map-script entries, hoisted arguments
	inlineTargets := map[string]bool{}
	for _, t := range f.Tops {
		if t.K != "mapscripts" {
			continue
		}
		for _, e := range t.Map.Entries {
			switch e.Kind {
			case "inline":
				inlineTargets[t.Map.Name+"_"+e.Type] = true
			case "table":
				inlineTargets[t.Map.Name+"_"+e.Type] = true
				for i, r := range e.Rows {
					if r.Body != nil {
						inlineTargets[fmt.Sprintf("%s_%s_%d", t.Map.Name, e.Type, i)] = true
					}
				}
			}
		}
	}
	var dangling []string
	for _, l := range a.Lines {
		if l.Op == "" {
			continue
		}
		for _, tg := range jumpTargets(l) {
			if m.genSubLabel(tg) && len(a.Labels[tg]) == 0 {
				dangling = append(dangling, fmt.Sprintf("%s -> %s", strings.TrimSpace(l.Raw), tg))
			}
		}
		if (l.Op == "map_script" && len(l.Args) == 2) || (l.Op == "map_script_2" && len(l.Args) == 3) {
			tg := l.Args[len(l.Args)-1]
			if inlineTargets[tg] && len(a.Labels[tg]) == 0 {
				dangling = append(dangling, fmt.Sprintf("%s -> %s", strings.TrimSpace(l.Raw), tg))
			}
		}
		if !strings.HasPrefix(l.Op, ".") {
			for _, arg := range l.Args {
				if isHoistedLabel(arg) && len(a.Labels[arg]) == 0 {
					dangling = append(dangling, fmt.Sprintf("%s -> %s", strings.TrimSpace(l.Raw), arg))
				}
			}
		}
	}
	if len(dangling) > 0 {
		sort.Strings(dangling)
		return viol("dangling-reference", "references to labels that are not defined: %s", strings.Join(dangling, " | "))
	}
	// every inline map script is there
	for tg := range inlineTargets {
		if len(a.Labels[tg]) != 1 {
			return viol("inline-script-missing", "inline map script / table %s is defined %d times", tg, len(a.Labels[tg]))
		}
	}
	// (iv) no run-off: an instruction that can fall through must be followed by
	// code of the same script; so must the entry label of a script (an empty script still returns).
	entry := map[string]bool{}
	for _, n := range m.entries {
		entry[n] = true
	}
	for i, l := range a.Lines {
		if l.Label != "" && entry[l.Label] {
			j := i + 1
			for j < len(a.Lines) && (a.Lines[j].IsMark || (a.Lines[j].Label != "" && !m.topLevel[a.Lines[j].Label] && !isHoistedLabel(a.Lines[j].Label))) {
				j++
			}
			if j >= len(a.Lines) {
				return viol("run-off", "nothing follows the entry label %s: execution runs past the end of the output", l.Label)
			}
			if nx := a.Lines[j]; nx.Other || nx.Label != "" || strings.HasPrefix(nx.Op, ".") || nx.Op == "map_script" || nx.Op == "map_script_2" {
				return viol("run-off", "no instruction follows the entry label %s: execution runs into '%s'", l.Label, strings.TrimSpace(nx.Raw))
			}
		}
		if l.Op == "" || strings.HasPrefix(l.Op, ".") || l.Op == "map_script" || l.Op == "map_script_2" {
			continue
		}
		if !inScript(a, i, m) {
			continue
		}
		if l.Op == "goto" || l.Op == "return" || l.Op == "end" {
			continue
		}
		j := i + 1
		for j < len(a.Lines) && a.Lines[j].IsMark {
			j++
		}
		if j >= len(a.Lines) {
			return viol("run-off", "execution can run past the end of the output after '%s'", strings.TrimSpace(l.Raw))
		}
		nx := a.Lines[j]
		switch {
		case nx.Other:
			return viol("run-off", "execution can run from '%s' into raw text '%s'", strings.TrimSpace(l.Raw), nx.Raw)
		case nx.Op != "" && (strings.HasPrefix(nx.Op, ".") || nx.Op == "map_script" || nx.Op == "map_script_2"):
			return viol("run-off", "execution can run from '%s' into data '%s'", strings.TrimSpace(l.Raw), strings.TrimSpace(nx.Raw))
		case nx.Label != "" && (m.topLevel[nx.Label] || isHoistedLabel(nx.Label)):
			return viol("run-off", "execution can run from '%s' into the next top-level block '%s'", strings.TrimSpace(l.Raw), nx.Label)
		}
	}
	return nil
}

// inScript reports whether line i belongs to a script block (the nearest
// preceding top-level/hoisted label is an entry).
func inScript(a *Asm, i int, m *modelNames) bool {
	for j := i; j >= 0; j-- {
		l := a.Lines[j]
		if l.Label == "" {
			continue
		}
		if m.entrySet[l.Label] {
			return true
		}
		if m.topLevel[l.Label] || isHoistedLabel(l.Label) {
			return false
		}
	}
	return false
}

func labelAfterTerminator(f *File) (after, inCase bool) {
	_, blocks := EntryBlocks(f)
	var rec func(b *Block, incase bool)
	rec = func(b *Block, incase bool) {
		term := false
		for _, s := range b.Stmts {
			switch s.K {
			case "label":
				if term {
					after = true
				}
				if incase {
					inCase = true
				}
			case "break", "continue":
				term = true
			case "cmd":
				if s.Cmd.Name == "end" || s.Cmd.Name == "return" || s.Cmd.Name == "goto" {
					term = true
				}
			case "if":
				for _, a := range s.If.Arms {
					rec(a.Body, incase)
				}
				if s.If.Else != nil {
					rec(s.If.Else, incase)
				}
			case "while":
				rec(s.While.Body, incase)
			case "dowhile":
				rec(s.Do.Body, incase)
			case "switch":
				for _, c := range s.Switch.Cases {
					rec(c.Body, true)
				}
			}
		}
	}
	for _, b := range blocks {
		rec(b, false)
	}
	return
}

func countHoisted(out string) int {
	a := ParseAsm(out)
	n := 0
	for l := range a.Labels {
		if isHoistedLabel(l) {
			n++
		}
	}
	return n
}

func checkC04(c *FileCase) *Violation {
	st := stat("C04")
	src := fileCaseSrc(c)
	hoisted := 0
	for _, opt := range []bool{false, true} {
		res := CompileMaybeLM(src, c.opts(opt))
		if !res.OK() {
			if res.Panic != nil || res.Budget {
				return viol("crash", "opt=%v %s\n--- source\n%s", opt, res.Describe(), src)
			}
			st.Label("rejected")
			if c.Meta["stray"] != "" {
				st.Label("stray-continue-rejected")
			}
			st.Note("last_rejection", clip(res.Err.Error()+"\n"+src, 800))
			return nil
		}
		if v := closureCheck(c.model(), res.Out); v != nil {
			v.Detail = fmt.Sprintf("opt=%v %s\n--- source\n%s--- output\n%s", opt, v.Detail, src, res.Out)
			return v
		}
		hoisted = countHoisted(res.Out)
	}
	after, inCase := labelAfterTerminator(c.model())
	nt := after || inCase || (hoisted >= 2 && len(c.File.Scripts()) >= 2)
	var lbl []string
	if after {
		lbl = append(lbl, "label-after-terminator")
	}
	if inCase {
		lbl = append(lbl, "label-in-case-body")
	}
	if hoisted >= 2 {
		lbl = append(lbl, "hoisted>=2")
	}
	st.Eval(src, nt, func() any { return clip(src, 1500) }, lbl...)
	return nil
}

func genC04(t *rapid.T) *FileCase {
	c := genC04Base(t)
	if rapid.IntRange(0, 7).Draw(t, "keywordlabel") == 0 {
		// a label may be called like a terminator command: 'end:' and 'return:' are ordinary labels
		var labels []*Stmt
		for _, sc := range c.File.Scripts() {
			walkStmts(sc.Body, func(s *Stmt) {
				if s.K == "label" {
					labels = append(labels, s)
				}
			})
		}
		if len(labels) > 0 {
			l := labels[rapid.IntRange(0, len(labels)-1).Draw(t, "keywordlabelwhich")]
			oldName, newName := l.Label.Name, rapid.SampledFrom([]string{"end", "return"}).Draw(t, "keywordlabelname")
			for _, tp := range c.File.Tops {
				var blocks []*Block
				if tp.K == "script" {
					blocks = append(blocks, tp.Script.Body)
				}
				if tp.K == "mapscripts" {
					for _, e := range tp.Map.Entries {
						blocks = append(blocks, e.Body)
						for _, r := range e.Rows {
							blocks = append(blocks, r.Body)
						}
					}
				}
				for _, b := range blocks {
					walkStmts(b, func(s *Stmt) {
						if s.K == "label" && s.Label.Name == oldName {
							s.Label.Name = newName
						}
						if s.K == "cmd" {
							for _, a := range s.Cmd.Args {
								for i, tk := range a.Toks {
									if tk == oldName {
										a.Toks[i] = newName
									}
								}
							}
						}
					})
				}
			}
		}
	}
	if rapid.IntRange(0, 7).Draw(t, "straycontinue") == 0 {
		// a 'continue' that is not the last statement of its block, somewhere inside a loop: rejected by
		// the compiler as it stands (the case is then skipped); a compiler that accepts it must still keep
		// every label written after it. Blocks of poryswitch cases are left alone (known finding of C12/C20).
		var blocks []*Block
		var inLoop func(b *Block)
		inLoop = func(b *Block) {
			if b == nil {
				return
			}
			if len(b.Stmts) >= 1 {
				blocks = append(blocks, b)
			}
			for _, s := range b.Stmts {
				switch s.K {
				case "if":
					for _, a := range s.If.Arms {
						inLoop(a.Body)
					}
					inLoop(s.If.Else)
				case "while":
					inLoop(s.While.Body)
				case "dowhile":
					inLoop(s.Do.Body)
				case "switch":
					for _, cs := range s.Switch.Cases {
						inLoop(cs.Body)
					}
				}
			}
		}
		for _, sc := range c.File.Scripts() {
			walkStmts(sc.Body, func(s *Stmt) {
				if s.K == "while" {
					inLoop(s.While.Body)
				} else if s.K == "dowhile" {
					inLoop(s.Do.Body)
				}
			})
		}
		if len(blocks) > 0 {
			b := blocks[rapid.IntRange(0, len(blocks)-1).Draw(t, "strayblock")]
			pos := rapid.IntRange(0, len(b.Stmts)-1).Draw(t, "straypos")
			b.Stmts = append(b.Stmts[:pos], append([]*Stmt{sContinue()}, b.Stmts[pos:]...)...)
			if c.Meta == nil {
				c.Meta = map[string]string{}
			}
			c.Meta["stray"] = "continue"
		}
	}
	return c
}

func genC04Base(t *rapid.T) *FileCase {
	if rapid.IntRange(0, 2).Draw(t, "kitchen") == 0 {
		return genKitchenCase(t, 0, 4)
	}
	cfg := DefaultFileCfg()
	cfg.CF.MaxLabels = 4
	cfg.CF.CondGoto = true // hand-written goto_if_set / goto_if_unset: execution goes on behind them
	if rapid.Bool().Draw(t, "scriptsonly") {
		cfg.Texts, cfg.Movements, cfg.Marts, cfg.Raws = false, false, false, false
	}
	return genFileCase(t, cfg, 0)
}

func init() { register("C04", "TestC04_Closed", checkC04, fileCaseSrc) }

func TestC04_Regress(t *testing.T) { runRegress(t, "C04") }

func TestC04_Closed(t *testing.T) {
	st := stat("C04")
	st.SetRule("whole files (scripts with the C01 control-flow grammar incl. labels in dead code and after break/end/return/goto, inline text and moves(), texts, movements, marts, mapscripts with inline scripts and tables, raw blocks; one file in three also has AutoVar conditions, statement poryswitch, constants and symbolic case values; one file in eight gets a 'continue' that is not last in its block - rejected as the compiler stands, and then skipped), optimize off and on; checks on the parsed output: every label defined once, every generated jump/case target, inline map-script target and hoisted argument defined, every user label present once, no instruction can fall into data / the next top-level block / the end of the output. non-trivial = a user label after break/continue/end/return/goto in its block or inside a switch case body, or >=2 scripts with >=2 hoisted blocks; distinct by source text")
	st.Assume("user-chosen names do not imitate generated names (generator never produces *_<digits>, *_Text_<n>, *_Movement_<n>)")
	runRapid(t, "C04", "TestC04_Closed", genC04, checkC04, fileCaseSrc)
}
