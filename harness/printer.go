package harness

import (
	"fmt"
	"strings"
	"unicode"
	"unicode/utf8"
)

// Tok is one source token as the printer intends it. A multi-part string
// literal is a single Tok (its parts are separated by whitespace only).
type Tok struct {
	S    string `json:"s"`
	NL   bool   `json:"nl,omitempty"`   // canonical layout starts a new line before this token
	Ind  int    `json:"ind,omitempty"`  // indentation for the canonical layout
	Glue bool   `json:"glue,omitempty"` // must directly follow the previous token (string type + literal)
}

type span struct{ first, last int }

// Printed is the token stream of a file together with the source spans of
// the model nodes that asked for one.
type Printed struct {
	Toks  []Tok
	spans []span
}

type printer struct {
	out   Printed
	ind   int
	nl    bool
	glue  bool
	stack []int
}

func (p *printer) t(s string) {
	p.out.Toks = append(p.out.Toks, Tok{S: s, NL: p.nl, Ind: p.ind, Glue: p.glue})
	p.nl = false
	p.glue = false
}
func (p *printer) ts(ss ...string) {
	for _, s := range ss {
		p.t(s)
	}
}
func (p *printer) line() { p.nl = true }

// open starts a span at the next token; close ends it at the last emitted token.
func (p *printer) open() int {
	p.out.spans = append(p.out.spans, span{first: len(p.out.Toks), last: -1})
	return len(p.out.spans) - 1
}
func (p *printer) close(id int) { p.out.spans[id].last = len(p.out.Toks) - 1 }

// PrintFile turns the model into tokens. Span ids are stored in the model nodes.
func PrintFile(f *File) *Printed {
	p := &printer{}
	p.out.spans = append(p.out.spans, span{0, -1}) // span 0 = unused
	for _, t := range f.Tops {
		p.line()
		p.top(t)
	}
	return &p.out
}

func (p *printer) scope(s string) {
	if s != "" {
		p.ts("(", s, ")")
	}
}

func (p *printer) top(t *Top) {
	switch t.K {
	case "script":
		s := t.Script
		s.Span = p.open()
		p.t("script")
		p.scope(s.Scope)
		p.ts(s.Name, "{")
		p.block(s.Body)
		p.line()
		p.t("}")
		p.close(s.Span)
	case "text":
		x := t.Text
		x.Span = p.open()
		p.t("text")
		p.scope(x.Scope)
		p.ts(x.Name, "{")
		p.ind++
		p.line()
		if x.PS != nil {
			p.psText(x.PS)
		} else {
			p.textVal(x.Val)
		}
		p.ind--
		p.line()
		p.t("}")
		p.close(x.Span)
	case "movement":
		m := t.Movement
		m.Span = p.open()
		p.t("movement")
		p.scope(m.Scope)
		p.ts(m.Name, "{")
		p.ind++
		p.steps(m.Steps, true)
		p.ind--
		p.line()
		p.t("}")
		p.close(m.Span)
	case "mart":
		m := t.Mart
		m.Span = p.open()
		p.t("mart")
		p.scope(m.Scope)
		p.ts(m.Name, "{")
		p.ind++
		p.items(m.Items, true)
		p.ind--
		p.line()
		p.t("}")
		p.close(m.Span)
	case "mapscripts":
		p.mapscripts(t.Map)
	case "raw":
		t.Raw.Span = p.open()
		p.t("raw")
		t.Raw.StrSpan = p.open()
		p.t("`" + t.Raw.Text + "`")
		p.close(t.Raw.StrSpan)
		p.close(t.Raw.Span)
	case "const":
		c := t.Const
		c.Span = p.open()
		p.ts("const", c.Name, "=")
		p.ts(c.Val...)
		p.close(c.Span)
	}
}

func (p *printer) mapscripts(m *MapScripts) {
	p.t("mapscripts")
	p.scope(m.Scope)
	p.ts(m.Name, "{")
	p.ind++
	for _, e := range m.Entries {
		p.line()
		e.Span = p.open()
		p.t(e.Type)
		switch e.Kind {
		case "plain":
			p.ts(":", e.Label)
		case "inline":
			p.t("{")
			p.block(e.Body)
			p.line()
			p.t("}")
		case "table":
			p.t("[")
			p.ind++
			for _, r := range e.Rows {
				p.line()
				r.Span = p.open()
				p.ts(r.Var...)
				p.t(",")
				p.ts(r.Val...)
				if r.Body != nil {
					p.t("{")
					p.block(r.Body)
					p.line()
					p.t("}")
				} else {
					p.ts(":", r.Label)
				}
				p.close(r.Span)
			}
			p.ind--
			p.line()
			p.t("]")
		}
		p.close(e.Span)
	}
	p.ind--
	p.line()
	p.t("}")
}

func (p *printer) block(b *Block) {
	p.ind++
	for _, s := range b.Stmts {
		p.line()
		p.stmt(s)
	}
	p.ind--
}

func (p *printer) cmd(c *Cmd) {
	c.Span = p.open()
	p.t(c.Name)
	if c.Parens || len(c.Args) > 0 {
		p.t("(")
		for i, a := range c.Args {
			if i > 0 {
				p.t(",")
			}
			a.Span = p.open()
			switch {
			case a.Text != nil:
				p.textVal(a.Text)
			case a.IsMv || a.Moves != nil:
				p.ts("moves", "(")
				p.steps(a.Moves, false)
				p.t(")")
			default:
				p.ts(a.Toks...)
			}
			p.close(a.Span)
		}
		p.t(")")
	}
	p.close(c.Span)
}

func (p *printer) stmt(s *Stmt) {
	s.Span = p.open()
	defer func() { p.close(s.Span) }()
	switch s.K {
	case "cmd":
		p.cmd(s.Cmd)
	case "label":
		p.t(s.Label.Name)
		p.scope(s.Label.Scope)
		p.t(":")
	case "if":
		for i, a := range s.If.Arms {
			if i == 0 {
				p.t("if")
			} else {
				p.t("elif")
			}
			p.t("(")
			p.expr(a.Cond)
			p.ts(")", "{")
			p.block(a.Body)
			p.line()
			p.t("}")
		}
		if s.If.Else != nil {
			p.ts("else", "{")
			p.block(s.If.Else)
			p.line()
			p.t("}")
		}
	case "while":
		p.t("while")
		if s.While.Cond != nil {
			p.t("(")
			p.expr(s.While.Cond)
			p.t(")")
		}
		p.t("{")
		p.block(s.While.Body)
		p.line()
		p.t("}")
	case "dowhile":
		p.ts("do", "{")
		p.block(s.Do.Body)
		p.line()
		p.ts("}", "while", "(")
		p.expr(s.Do.Cond)
		p.t(")")
	case "break":
		p.t("break")
	case "continue":
		p.t("continue")
	case "switch":
		sw := s.Switch
		p.ts("switch", "(")
		sw.OpSpan = p.open()
		if sw.Auto != nil {
			p.cmd(sw.Auto)
		} else {
			p.ts("var", "(")
			p.ts(sw.Var...)
			p.t(")")
		}
		p.close(sw.OpSpan)
		p.ts(")", "{")
		p.ind++
		for _, c := range sw.Cases {
			p.line()
			c.Span = p.open()
			if c.IsDefault {
				p.ts("default", ":")
			} else {
				p.t("case")
				p.ts(c.Val...)
				p.t(":")
			}
			p.close(c.Span)
			p.block(c.Body)
		}
		p.ind--
		p.line()
		p.t("}")
	case "ps":
		ps := s.PS
		p.ts("poryswitch", "(", ps.Var, ")", "{")
		p.ind++
		for _, c := range ps.Cases {
			p.line()
			p.t(c.Key)
			if c.Brace {
				p.t("{")
				p.block(c.Body)
				p.line()
				p.t("}")
			} else {
				p.t(":")
				for _, st := range c.Body.Stmts {
					p.stmt(st)
				}
			}
		}
		p.ind--
		p.line()
		p.t("}")
	}
}

func (p *printer) expr(e *Expr) {
	switch e.K {
	case "leaf":
		p.leaf(e.Leaf)
	case "paren":
		p.t("(")
		p.expr(e.L)
		p.t(")")
	case "not":
		p.ts("!", "(")
		p.expr(e.L)
		p.t(")")
	case "and":
		p.operand(e.L, e.L.K == "or")
		p.t("&&")
		p.operand(e.R, e.R.K == "or" || e.R.K == "and")
	case "or":
		p.operand(e.L, false)
		p.t("||")
		p.operand(e.R, e.R.K == "or")
	}
}

func (p *printer) operand(e *Expr, paren bool) {
	if paren {
		p.t("(")
	}
	p.expr(e)
	if paren {
		p.t(")")
	}
}

func (p *printer) leaf(l *Leaf) {
	l.Span = p.open()
	if l.Op == "!" {
		p.t("!")
	}
	if l.Kind == "auto" {
		p.cmd(l.Auto)
	} else {
		p.ts(l.Kind, "(")
		p.ts(l.Operand...)
		p.t(")")
	}
	if l.Op != "" && l.Op != "!" {
		p.t(l.Op)
		if l.Wrap {
			p.ts("value", "(")
			p.ts(l.Value...)
			p.t(")")
		} else {
			p.ts(l.Value...)
		}
	}
	p.close(l.Span)
}

func (s *StrLit) source() string {
	var sb strings.Builder
	for i, part := range s.Parts {
		if i > 0 {
			sep := "\n"
			if i-1 < len(s.Seps) {
				sep = s.Seps[i-1]
			}
			sb.WriteString(sep)
		}
		sb.WriteString(`"` + part + `"`)
	}
	return sb.String()
}

func (p *printer) strLit(s *StrLit) {
	if s.Type != "" {
		p.t(s.Type)
		p.glue = true
	}
	p.t(s.source())
}

func (p *printer) textVal(v *TextVal) {
	v.Span = p.open()
	if v.Format {
		p.ts("format", "(")
		v.LitSpan = p.open()
		p.strLit(v.Lit)
		p.close(v.LitSpan)
		for _, fp := range v.Params {
			p.t(",")
			if fp.Name != "" {
				p.ts(fp.Name, "=")
			}
			p.t(fp.Val)
		}
		p.t(")")
	} else {
		v.LitSpan = p.open()
		p.strLit(v.Lit)
		p.close(v.LitSpan)
	}
	p.close(v.Span)
}

func (p *printer) psText(ps *PSText) {
	p.ts("poryswitch", "(", ps.Var, ")", "{")
	p.ind++
	for _, c := range ps.Cases {
		p.line()
		p.t(c.Key)
		if c.Brace {
			p.t("{")
			p.textVal(c.Val)
			p.t("}")
		} else {
			p.t(":")
			p.textVal(c.Val)
		}
	}
	p.ind--
	p.line()
	p.t("}")
}

func (p *printer) psList(ps *PSList, movement bool) {
	p.ts("poryswitch", "(", ps.Var, ")", "{")
	p.ind++
	for _, c := range ps.Cases {
		p.line()
		p.t(c.Key)
		if c.Brace {
			p.t("{")
			if movement {
				p.steps(c.Steps, false)
			} else {
				p.items(c.Items, false)
			}
			p.t("}")
		} else {
			p.t(":")
			if movement {
				p.steps(c.Steps, false)
			} else {
				p.items(c.Items, false)
			}
		}
	}
	p.ind--
	p.line()
	p.t("}")
}

func (p *printer) steps(st []*Step, lines bool) {
	for _, s := range st {
		if lines {
			p.line()
		}
		s.Span = p.open()
		switch {
		case s.PS != nil:
			p.psList(s.PS, true)
		case s.Comma:
			p.t(",")
		default:
			p.t(s.Name)
			if s.Mul != "" {
				p.ts("*", s.Mul)
			}
		}
		p.close(s.Span)
	}
}

func (p *printer) items(it []*Item, lines bool) {
	for _, s := range it {
		if lines {
			p.line()
		}
		s.Span = p.open()
		if s.PS != nil {
			p.psList(s.PS, false)
		} else {
			p.t(s.Name)
		}
		p.close(s.Span)
	}
}

// ---- layout ----

// Placed is a laid-out source text with the position of every token.
type Placed struct {
	Src     string
	Line    []int // 1-based line of the token's first character
	EndLine []int // 1-based line of the token's last character
	Col     []int // 0-based byte column of the first character
	ColRune []int // 0-based rune column of the first character
	NLines  int   // number of source lines (1 + number of '\n', minus one if the text ends in '\n')
	spans   []span
}

func tokClass(s string) byte {
	r, _ := utf8.DecodeRuneInString(s)
	switch {
	case r == '"':
		return 's'
	case r == '`':
		return 'r'
	case unicode.IsLetter(r) || r == '_':
		return 'w'
	case unicode.IsDigit(r):
		return 'n'
	case r == '-' && len(s) > 1:
		return 'n'
	}
	return 'p'
}

// needsSep reports whether tokens a and b must be separated by at least one
// layout character to be lexed as intended. Conservative by design.
func needsSep(a, b string) bool {
	ca, cb := tokClass(a), tokClass(b)
	if (ca == 'w' || ca == 'n') && (cb == 'w' || cb == 'n') {
		return true
	}
	if ca == 'w' && cb == 's' {
		return true // would become a string type
	}
	if ca == 's' && cb == 's' {
		return true // (and whitespace is not enough: see Layout)
	}
	if a == "-" && cb == 'n' {
		return true
	}
	last := a[len(a)-1]
	first := b[0]
	if (last == '!' || last == '=' || last == '<' || last == '>') && first == '=' {
		return true
	}
	if last == '&' && first == '&' {
		return true
	}
	if last == '|' && first == '|' {
		return true
	}
	if last == '/' && first == '/' {
		return true
	}
	if last == '-' && (cb == 'n') {
		return true
	}
	return false
}

func tightBefore(prev, cur string) bool {
	switch cur {
	case ")", ",", ":", "]":
		return true
	case "(":
		return tokClass(prev) == 'w' && prev != "if" && prev != "elif" && prev != "while" && prev != "switch"
	}
	switch prev {
	case "(", "!", "[":
		return true
	}
	return false
}

// GapFn chooses the layout text between token i-1 and token i (i == 0: before
// the first token; i == len: after the last). mustSep: at least one whitespace
// or comment is needed.
type GapFn func(i int, mustSep bool) string

// CanonGap is the canonical layout.
func CanonGap(toks []Tok) GapFn {
	return func(i int, mustSep bool) string {
		if i == 0 {
			return ""
		}
		if i == len(toks) {
			return "\n"
		}
		t := toks[i]
		if t.NL {
			return "\n" + strings.Repeat("\t", t.Ind)
		}
		if !mustSep && tightBefore(toks[i-1].S, t.S) {
			return ""
		}
		return " "
	}
}

// Layout joins the tokens with the gaps chosen by gap and records positions.
func (pr *Printed) Layout(gap GapFn) *Placed {
	n := len(pr.Toks)
	pl := &Placed{Line: make([]int, n), EndLine: make([]int, n), Col: make([]int, n), ColRune: make([]int, n), spans: pr.spans}
	var sb strings.Builder
	line, col, colr := 1, 0, 0
	adv := func(s string) {
		sb.WriteString(s)
		for _, r := range s {
			if r == '\n' {
				line++
				col, colr = 0, 0
			} else {
				col += utf8.RuneLen(r)
				colr++
			}
		}
	}
	for i, t := range pr.Toks {
		g := ""
		if !t.Glue {
			must := i > 0 && needsSep(pr.Toks[i-1].S, t.S)
			g = gap(i, must)
			if must && g == "" {
				g = " "
			}
			if i > 0 && g != "" && g[0] == '/' && strings.HasSuffix(pr.Toks[i-1].S, "/") {
				g = " " + g
			}
			if i > 0 && tokClass(pr.Toks[i-1].S) == 's' && tokClass(t.S) == 's' && !strings.ContainsAny(g, "#/") {
				g = " # sep\n" // two literals stay two tokens only with a comment in between
			}
		}
		adv(g)
		pl.Line[i], pl.Col[i], pl.ColRune[i] = line, col, colr
		adv(t.S)
		pl.EndLine[i] = line
	}
	tail := gap(n, false)
	if n > 0 && tail != "" && tail[0] == '/' && strings.HasSuffix(pr.Toks[n-1].S, "/") {
		tail = " " + tail
	}
	adv(tail)
	pl.Src = sb.String()
	pl.NLines = strings.Count(pl.Src, "\n") + 1
	if strings.HasSuffix(pl.Src, "\n") {
		pl.NLines--
	}
	if pl.NLines == 0 {
		pl.NLines = 1
	}
	return pl
}

// SpanLines returns the first and last source line of a span.
func (pl *Placed) SpanLines(id int) (int, int) {
	s := pl.spans[id]
	if s.last < s.first {
		return 0, 0
	}
	return pl.Line[s.first], pl.EndLine[s.last]
}

// SpanFirstTok returns the index of the first token of the span.
func (pl *Placed) SpanFirstTok(id int) int { return pl.spans[id].first }

// Canon prints a file in canonical layout.
func Canon(f *File) string {
	pr := PrintFile(f)
	return pr.Layout(CanonGap(pr.Toks)).Src
}

// Dense is the whole file on one line: a single blank wherever the canonical layout has a line break.
func Dense(f *File) string {
	pr := PrintFile(f)
	return pr.Layout(func(i int, mustSep bool) string {
		if i == 0 {
			return ""
		}
		if i == len(pr.Toks) {
			return "\n"
		}
		if !mustSep && !pr.Toks[i].NL && tightBefore(pr.Toks[i-1].S, pr.Toks[i].S) {
			return ""
		}
		return " "
	}).Src
}

// CanonMaybeDense is Canon for five files in six and Dense for the sixth (chosen by the canonical text, so
// that a case always prints the same way): constructs that the canonical layout puts on lines of their own
// - cases, statements, table rows - then share one line.
func CanonMaybeDense(f *File) string {
	c := Canon(f)
	if hash64(c)%6 == 0 {
		return Dense(f)
	}
	return c
}

func (pl *Placed) String() string { return fmt.Sprintf("%d tokens, %d lines", len(pl.Line), pl.NLines) }
