package harness

import (
	"fmt"
	"strings"
	"testing"

	"pgregory.net/rapid"
)

// C16: line markers are transparent and name the right source line.

type C16Case struct {
	File     *File             `json:"file"`
	Gaps     []string          `json:"gaps"`
	Path     string            `json:"path"`
	Auto     AutoCfg           `json:"auto,omitempty"`
	Switches map[string]string `json:"switches,omitempty"`
}

func c16Src(c *C16Case) string {
	pr := PrintFile(c.File)
	return pr.Layout(FixedGaps(c.Gaps)).Src
}

var c16Auto = AutoCfg{"checkitem": {VarName: "VAR_RESULT"}, "random": {VarName: "VAR_RESULT"}, "specialvar": {ArgPos: new(int)}}

// uniquify gives every construct content of its own, so that an output line identifies its source construct.
func uniquify(f *File, auto AutoCfg) {
	n := 0
	next := func() int { n++; return n }
	var doSteps func(st []*Step)
	doSteps = func(st []*Step) {
		prevName, prev2Name := "", ""
		for _, s := range st {
			if s.PS != nil {
				for _, c := range s.PS.Cases {
					doSteps(c.Steps)
				}
			} else if !s.Comma && s.Name != "step_end" {
				// every fourth step repeats the name of the last step but one of the same list (a b a) (written on a line of
				// its own or not): such steps are judged by the order clause, not by content
				if k := next(); k%4 == 0 && prev2Name != "" {
					s.Name = prev2Name
				} else {
					s.Name = fmt.Sprintf("step_u%d", k)
				}
				prev2Name, prevName = prevName, s.Name
			}
		}
	}
	doCmd := func(c *Cmd) {
		if _, ok := auto[c.Name]; ok {
			c.Args = append(c.Args, &Arg{Toks: []string{fmt.Sprintf("U_%d", next())}})
		}
		for _, a := range c.Args {
			if a.Text != nil {
				a.Text.Lit.Parts[0] += fmt.Sprintf(" #%d", next())
			}
			if a.IsMv || a.Moves != nil {
				doSteps(a.Moves)
				a.Moves = append(a.Moves, &Step{Name: fmt.Sprintf("step_u%d", next())})
			}
		}
	}
	var doExpr func(e *Expr)
	doExpr = func(e *Expr) {
		walkLeaves(e, func(l *Leaf) {
			switch l.Kind {
			case "flag":
				l.Operand = []string{fmt.Sprintf("FLAG_U%d", next())}
			case "defeated":
				l.Operand = []string{fmt.Sprintf("TRAINER_U%d", next())}
			case "var":
				l.Operand = []string{fmt.Sprintf("VAR_U%d", next())}
			case "auto":
				doCmd(l.Auto)
			}
		})
	}
	var doBlock func(b *Block)
	doBlock = func(b *Block) {
		if b == nil {
			return
		}
		for _, s := range b.Stmts {
			switch s.K {
			case "cmd":
				doCmd(s.Cmd)
			case "if":
				for _, a := range s.If.Arms {
					doExpr(a.Cond)
					doBlock(a.Body)
				}
				doBlock(s.If.Else)
			case "while":
				if s.While.Cond != nil {
					doExpr(s.While.Cond)
				}
				doBlock(s.While.Body)
			case "dowhile":
				doBlock(s.Do.Body)
				doExpr(s.Do.Cond)
			case "ps":
				for _, c := range s.PS.Cases {
					doBlock(c.Body)
				}
			case "switch":
				if s.Switch.Auto != nil {
					doCmd(s.Switch.Auto)
				} else {
					s.Switch.Var = []string{fmt.Sprintf("VAR_S%d", next())}
				}
				for _, c := range s.Switch.Cases {
					if !c.IsDefault {
						if n := next(); n%3 == 0 {
							c.Val = []string{fmt.Sprintf("CASE_U%d", n)}
						} else {
							c.Val = []string{fmt.Sprint(1000 + n)}
						}
					}
					doBlock(c.Body)
				}
			}
		}
	}
	for _, t := range f.Tops {
		switch t.K {
		case "script":
			doBlock(t.Script.Body)
		case "text":
			t.Text.Val.Lit.Parts[0] += fmt.Sprintf(" #%d", next())
		case "movement":
			doSteps(t.Movement.Steps)
		case "mart":
			for _, it := range t.Mart.Items {
				if it.Name != "ITEM_NONE" {
					it.Name = fmt.Sprintf("ITEM_U%d", next())
				}
			}
		case "raw":
			lines := strings.Split(t.Raw.Text, "\n")
			crlf := next()%3 == 0 // some raw blocks use CRLF line endings
			for i, l := range lines {
				if strings.TrimSpace(l) != "" {
					lines[i] = fmt.Sprintf("\t.rawdata %d", next())
				}
				if crlf && i < len(lines)-1 {
					lines[i] += "\r"
				}
			}
			t.Raw.Text = strings.Join(lines, "\n")
			if next()%9 == 0 {
				t.Raw.Text = "" // an empty raw block
			}
		case "mapscripts":
			for _, e := range t.Map.Entries {
				doBlock(e.Body)
				for _, r := range e.Rows {
					r.Var = []string{fmt.Sprintf("VAR_R%d", next())}
					doBlock(r.Body)
				}
			}
		}
	}
}

// spanIndex maps identifying strings of output lines to source spans.
type spanIndex struct {
	cmd    map[string]int // unique command name / U_ argument -> span
	opnd   map[string]int // unique flag/var/trainer operand -> leaf span
	autoOp map[string]int // U_ argument of an AutoVar command -> span of the leaf / switch operand it belongs to
	swVar  map[string]int
	caseV  map[string]int
	item   map[string]int
	step   map[string]int
	row    map[string]int
	entry  map[string]int // "TYPE, target"
	label  map[string]int // user label, movement / mart statement name -> span
	text   map[string]int // text statement name -> span
	raws   []*Raw
}

func uArg(c *Cmd) string {
	for _, a := range c.Args {
		if len(a.Toks) == 1 && strings.HasPrefix(a.Toks[0], "U_") {
			return a.Toks[0]
		}
	}
	return ""
}

func buildSpanIndex(f *File, sw map[string]string) *spanIndex {
	x := &spanIndex{cmd: map[string]int{}, opnd: map[string]int{}, autoOp: map[string]int{}, swVar: map[string]int{}, caseV: map[string]int{}, item: map[string]int{}, step: map[string]int{}, row: map[string]int{}, entry: map[string]int{}, label: map[string]int{}, text: map[string]int{}}
	var doSteps func(st []*Step)
	doSteps = func(st []*Step) {
		for _, s := range st {
			if s.PS == nil && !s.Comma && strings.HasPrefix(s.Name, "step_u") {
				if _, dup := x.step[s.Name]; dup {
					x.step[s.Name] = -1 // written more than once: not attributable by content
				} else {
					x.step[s.Name] = s.Span
				}
			}
		}
	}
	doCmd := func(c *Cmd) {
		if u := uArg(c); u != "" {
			x.cmd[u] = c.Span
		} else if strings.HasPrefix(c.Name, "c") {
			x.cmd[c.Name] = c.Span
		}
		for _, a := range c.Args {
			doSteps(a.Moves)
		}
	}
	var doExpr func(e *Expr)
	doExpr = func(e *Expr) {
		walkLeaves(e, func(l *Leaf) {
			if l.Kind == "auto" {
				doCmd(l.Auto)
				x.autoOp[uArg(l.Auto)] = l.Span
			} else {
				x.opnd[joinToks(l.Operand)] = l.Span
			}
		})
	}
	var doBlock func(b *Block)
	doBlock = func(b *Block) {
		if b == nil {
			return
		}
		for _, s := range b.Stmts {
			switch s.K {
			case "cmd":
				doCmd(s.Cmd)
			case "label":
				x.label[s.Label.Name] = s.Span
			case "if":
				for _, a := range s.If.Arms {
					doExpr(a.Cond)
					doBlock(a.Body)
				}
				doBlock(s.If.Else)
			case "while":
				if s.While.Cond != nil {
					doExpr(s.While.Cond)
				}
				doBlock(s.While.Body)
			case "dowhile":
				doBlock(s.Do.Body)
				doExpr(s.Do.Cond)
			case "ps":
				// only the selected case reaches the output (a label may be written in several cases)
				keys := make([]string, len(s.PS.Cases))
				for i, c := range s.PS.Cases {
					keys[i] = c.Key
				}
				if i := selectKey(keys, sw[s.PS.Var]); i >= 0 {
					doBlock(s.PS.Cases[i].Body)
				}
			case "switch":
				if s.Switch.Auto != nil {
					doCmd(s.Switch.Auto)
					x.autoOp[uArg(s.Switch.Auto)] = s.Switch.OpSpan
				} else {
					x.swVar[joinToks(s.Switch.Var)] = s.Switch.OpSpan
				}
				for _, c := range s.Switch.Cases {
					if !c.IsDefault {
						x.caseV[joinToks(c.Val)] = c.Span
					}
					doBlock(c.Body)
				}
			}
		}
	}
	for _, t := range f.Tops {
		switch t.K {
		case "script":
			doBlock(t.Script.Body)
		case "text":
			x.text[t.Text.Name] = t.Text.Span
		case "movement":
			x.label[t.Movement.Name] = t.Movement.Span
			doSteps(t.Movement.Steps)
		case "mart":
			x.label[t.Mart.Name] = t.Mart.Span
			for _, it := range t.Mart.Items {
				x.item[it.Name] = it.Span
			}
		case "raw":
			x.raws = append(x.raws, t.Raw)
		case "mapscripts":
			for _, e := range t.Map.Entries {
				target := e.Label
				if e.Kind != "plain" {
					target = t.Map.Name + "_" + e.Type
				}
				x.entry[e.Type+", "+target] = e.Span
				doBlock(e.Body)
				for _, r := range e.Rows {
					x.row[joinToks(r.Var)] = r.Span
					doBlock(r.Body)
				}
			}
		}
	}
	return x
}

func checkC16(c *C16Case) *Violation {
	st := stat("C16")
	pr := PrintFile(c.File)
	pl := pr.Layout(FixedGaps(c.Gaps))
	src := pl.Src
	nLines := CountLines(src)
	kinds := map[string]bool{}
	for _, opt := range []bool{true, false} {
		o := Opts{Optimize: opt, Auto: c.Auto, FontPath: "@repo", Path: c.Path, Switches: c.Switches}
		plain := Compile(src, o)
		if plain.Panic != nil || plain.Budget {
			return viol("crash", "%s\n--- source\n%s", plain.Describe(), src)
		}
		if plain.Err != nil {
			st.Label("rejected")
			st.Note("last_rejection", clip(plain.Err.Error()+"\n"+src, 800))
			return nil
		}
		for _, l := range ParseAsm(plain.Out).Lines {
			if l.IsMark {
				return viol("markers-without-lm", "a marker line %q in the -lm=false output (path %q)\n--- source\n%s--- output\n%s", l.Raw, c.Path, src, plain.Out)
			}
		}
		o.LineMarkers = true
		lm := Compile(src, o)
		if !lm.OK() {
			return viol("lm-changes-acceptance", "with -lm: %s\n--- source\n%s", lm.Describe(), src)
		}
		detail := func(f string, args ...any) string {
			return fmt.Sprintf("opt=%v path=%q ", opt, c.Path) + fmt.Sprintf(f, args...) + "\n--- source (with line numbers)\n" + numbered(src) + "--- output\n" + lm.Out
		}
		// (a) transparency
		if StripMarkers(lm.Out) != plain.Out {
			return viol("markers-not-transparent", "%s", detail("removing the marker lines from the -lm output does not give the -lm=false output\n--- -lm=false output\n%s", plain.Out))
		}
		a := ParseAsm(lm.Out)
		// (b) no path, no markers
		nMarkers := 0
		for _, l := range a.Lines {
			if l.IsMark {
				nMarkers++
			}
		}
		// a raw block may itself contain text that looks like a marker; ours never does
		if c.Path == "" {
			if nMarkers > 0 {
				return viol("markers-without-path", "%s", detail("%d markers emitted although no input path was given", nMarkers))
			}
			continue
		}
		x := buildSpanIndex(c.File, c.Switches)
		bind, _ := ComputeBinding(c.File, RepoFonts(), "", 0) // (files with poryswitch: labels of hoisted data are then not attributed, see below)
		// owner of every hoisted label: the first argument bound to it
		hoistOwnerCmd := map[string]int{}
		hoistOwnerLit := map[string]int{}
		{
			names, blocks := EntryBlocks(c.File)
			for _, n := range names {
				walkCmdsOrdered(blocks[n], func(cmd *Cmd) {
					for _, ar := range cmd.Args {
						if l, ok := bind.ArgLabel[ar]; ok {
							if _, seen := hoistOwnerCmd[l]; !seen {
								hoistOwnerCmd[l] = cmd.Span
								if ar.Text != nil {
									hoistOwnerLit[l] = ar.Text.LitSpan
								}
							}
						}
					}
				})
			}
		}
		want := strings.ReplaceAll(c.Path, `\`, `\\`)
		rawSeen := map[*Raw]int{}
		lastListMarker := 0 // line named by the previous marker inside the current movement / mart block
		for i, l := range a.Lines {
			if !l.IsMark {
				if l.Label != "" || l.BlankBefore {
					lastListMarker = 0
				}
				continue
			}
			// (e) steps and items are emitted in source order: inside one movement or mart block the markers never go back
			if i+1 < len(a.Lines) && !a.Lines[i+1].BlankBefore && (strings.HasPrefix(a.Lines[i+1].Op, "step_") || a.Lines[i+1].Op == ".2byte") {
				if l.Marker < lastListMarker {
					return viol("marker-order", "%s", detail("marker %q before %q names an earlier line than the marker of the entry before it (%d)", l.Raw, strings.TrimSpace(a.Lines[i+1].Raw), lastListMarker))
				}
				lastListMarker = l.Marker
			}
			// (c)
			if l.MFile != want {
				return viol("marker-file", "%s", detail("marker %q names %q, the input file is %q", l.Raw, l.MFile, c.Path))
			}
			if l.Marker < 1 || l.Marker > nLines {
				return viol("marker-range", "%s", detail("marker %q: line %d is not in 1..%d", l.Raw, l.Marker, nLines))
			}
			var nx ALine
			blankRaw := false // a blank (raw) line sits between the marker and the next non-blank line (or the end)
			if i+1 >= len(a.Lines) {
				blankRaw = true
			} else {
				nx = a.Lines[i+1]
				blankRaw = nx.BlankBefore
			}
			// (d) identify the construct that follows
			span, kind := 0, ""
			exact := 0
			switch {
			case blankRaw:
			case nx.IsMark:
				return viol("marker-before-marker", "%s", detail("two markers in a row at %q", l.Raw))
			case nx.Label != "":
				if s, ok := x.label[nx.Label]; ok {
					span, kind = s, "label"
				} else if s, ok := hoistOwnerCmd[nx.Label]; ok && strings.Contains(nx.Label, "_Movement_") {
					span, kind = s, "moves()"
				}
			case nx.Op == "goto_if_set" || nx.Op == "goto_if_unset" || nx.Op == "checktrainerflag" || nx.Op == "compare" || nx.Op == "compare_var_to_value":
				if len(nx.Args) > 0 {
					if s, ok := x.opnd[nx.Args[0]]; ok {
						span, kind = s, "condition operand"
					} else if i > 0 {
						// AutoVar: the command line precedes the marker
						for j := i - 1; j >= 0; j-- {
							if a.Lines[j].IsMark {
								continue
							}
							for _, arg := range a.Lines[j].Args {
								if s, ok := x.autoOp[arg]; ok {
									span, kind = s, "autovar operand"
								}
							}
							break
						}
					}
				}
			case nx.Op == "switch":
				if len(nx.Args) > 0 {
					if s, ok := x.swVar[nx.Args[0]]; ok {
						span, kind = s, "switch operand"
					} else {
						for j := i - 1; j >= 0; j-- {
							if a.Lines[j].IsMark {
								continue
							}
							for _, arg := range a.Lines[j].Args {
								if s, ok := x.autoOp[arg]; ok {
									span, kind = s, "autovar switch operand"
								}
							}
							break
						}
					}
				}
			case nx.Op == "case":
				if len(nx.Args) > 0 {
					if s, ok := x.caseV[nx.Args[0]]; ok {
						span, kind = s, "case"
					}
				}
			case nx.Op == ".2byte":
				if s, ok := x.item[nx.Rest]; ok {
					span, kind = s, "mart item"
				}
			case nx.Op == "map_script":
				if s, ok := x.entry[nx.Rest]; ok {
					span, kind = s, "map script entry"
				}
			case nx.Op == "map_script_2":
				if len(nx.Args) > 0 {
					if s, ok := x.row[nx.Args[0]]; ok {
						span, kind = s, "map script table row"
					}
				}
			case strings.HasPrefix(nx.Op, ".") && strings.HasPrefix(nx.Rest, `"`):
				// text: the label is the line before the marker
				if i > 0 && a.Lines[i-1].Label != "" {
					lb := a.Lines[i-1].Label
					if s, ok := x.text[lb]; ok {
						span, kind = s, "text statement"
					} else if s, ok := hoistOwnerLit[lb]; ok {
						span, kind = s, "inline text"
					}
				}
			case nx.Op != "":
				if s, ok := x.step[nx.Op]; ok {
					if s >= 0 {
						span, kind = s, "movement step"
					}
				} else if s, ok := x.cmd[nx.Op]; ok {
					span, kind = s, "command"
				} else {
					for _, arg := range nx.Args {
						if s, ok := x.cmd[arg]; ok {
							span, kind = s, "command"
						}
					}
				}
			}
			if kind == "" {
				// raw lines (also blank ones) are exact: line of the back-quoted literal + index
				for _, r := range x.raws {
					lines := strings.Split(strings.TrimRight(r.Text, " \t\r\n"), "\n")
					k := rawSeen[r]
					if k < len(lines) && ((blankRaw && strings.TrimSpace(lines[k]) == "") || (!blankRaw && !nx.IsMark && strings.TrimRight(lines[k], "\r") == strings.TrimRight(nx.Raw, "\r"))) {
						lo, _ := pl.SpanLines(r.StrSpan)
						exact, kind = lo+k, "raw line"
						rawSeen[r] = k + 1
						break
					}
				}
			}
			if kind == "" {
				st.Label("unidentified-construct")
				continue
			}
			kinds[kind] = true
			if exact > 0 {
				if l.Marker != exact {
					return viol("marker-line", "%s", detail("marker %q before %s %q: that raw line is on source line %d", l.Raw, kind, nx.Raw, exact))
				}
				continue
			}
			lo, hi := pl.SpanLines(span)
			if l.Marker < lo || l.Marker > hi {
				return viol("marker-line", "%s", detail("marker %q before %s %q: the construct is written on source lines %d-%d", l.Raw, kind, strings.TrimSpace(nx.Raw), lo, hi))
			}
		}
	}
	multi := strings.Count(src, "\n") > len(pr.Toks)/6
	nt := len(kinds) >= 5 && multi && strings.Contains(src, "#")
	st.Eval(src, nt, func() any { return clip(src, 900) }, fmt.Sprintf("kinds=%d", len(kinds)))
	return nil
}

func numbered(src string) string {
	var sb strings.Builder
	for i, l := range strings.Split(src, "\n") {
		fmt.Fprintf(&sb, "%3d| %s\n", i+1, l)
	}
	return sb.String()
}

func genC16(t *rapid.T) *C16Case {
	cfg := DefaultFileCfg()
	cfg.CF.MaxDepth = 3
	cfg.CF.Auto = c16Auto
	cfg.CF.AutoP = 4
	cfg.MaxTops = 5
	if rapid.IntRange(0, 2).Draw(t, "withps") == 0 {
		// statement poryswitch: the statements of the selected case keep their own source lines
		cfg.CF.PS = 6
		cfg.CF.PSNoDirectContinue = true
		cfg.CF.PSNestedFallback = true
		cfg.CF.PSAlwaysFallback = true
		cfg.CF.InlineText = false // (hoisted labels are numbered by the selected cases only; their attribution needs the binding of the resolved file)
	}
	f := GenFile(t, cfg)
	uniquify(f, c16Auto)
	if rapid.IntRange(0, 3).Draw(t, "formattwin") == 0 {
		// the format() call of a text statement written again, inline, in a later script: the inline text is a
		// text of its own, attributed to its own string literal
		for ti, tp := range f.Tops {
			if tp.K != "text" || tp.Text.Val == nil || !tp.Text.Val.Format {
				continue
			}
			var later *Script
			for _, tq := range f.Tops[ti+1:] {
				if tq.K == "script" {
					later = tq.Script
				}
			}
			if later == nil {
				continue
			}
			v := tp.Text.Val
			cp := &TextVal{Lit: &StrLit{Type: v.Lit.Type, Parts: append([]string{}, v.Lit.Parts...), Seps: append([]string{}, v.Lit.Seps...)}, Format: true}
			for _, fp := range v.Params {
				cp.Params = append(cp.Params, &FParam{Name: fp.Name, Val: fp.Val})
			}
			later.Body.Stmts = append([]*Stmt{sCmd(&Cmd{Name: "cfmttwin", Args: []*Arg{{Toks: []string{"U_twin"}}, {Text: cp}}})}, later.Body.Stmts...)
			break
		}
	}
	if rapid.IntRange(0, 2).Draw(t, "selfconsts") == 0 {
		// constants that stand for themselves (const CASE_U7 = CASE_U7): the output text is unchanged, but every
		// use of the name goes through constant substitution and must keep the position of the written token
		var names []string
		seenName := map[string]bool{}
		note := func(toks []string) {
			if len(toks) == 1 && !seenName[toks[0]] && (strings.HasPrefix(toks[0], "CASE_U") || strings.HasPrefix(toks[0], "FLAG_U") || strings.HasPrefix(toks[0], "VAR_U") || strings.HasPrefix(toks[0], "VAR_S") || strings.HasPrefix(toks[0], "TRAINER_U")) {
				seenName[toks[0]] = true
				names = append(names, toks[0])
			}
		}
		for _, sc := range f.Scripts() {
			walkStmts(sc.Body, func(s *Stmt) {
				for _, e := range stmtConds(s) {
					walkLeaves(e, func(l *Leaf) { note(l.Operand) })
				}
				if s.K == "switch" {
					note(s.Switch.Var)
					for _, cs := range s.Switch.Cases {
						note(cs.Val)
					}
				}
			})
		}
		if len(names) > 0 {
			k := rapid.IntRange(1, min(4, len(names))).Draw(t, "nselfconsts")
			perm := rapid.Permutation(names).Draw(t, "selfconstnames")
			var tops []*Top
			for _, n := range perm[:k] {
				tops = append(tops, &Top{K: "const", Const: &Const{Name: n, Val: []string{n}}})
			}
			f.Tops = append(tops, f.Tops...)
		}
	}
	c := &C16Case{File: f, Auto: c16Auto, Switches: map[string]string{"V": rapid.SampledFrom([]string{"A", "B", "zz"}).Draw(t, "v"), "W": rapid.SampledFrom([]string{"A", "1", "q"}).Draw(t, "w")}}
	c.Path = rapid.SampledFrom([]string{"data/maps/Town/scripts.pory", "scripts.pory", `C:\decomp\data\scripts.pory`, "", "a b/ü.pory", "data/My%20Town/100%.pory", "%s%d%v.pory"}).Draw(t, "path")
	c.Gaps = drawGaps(t, len(PrintFile(f).Toks), true)
	return c
}

func init() { register("C16", "TestC16_Markers", checkC16, c16Src) }

func TestC16_Regress(t *testing.T) { runRegress(t, "C16") }

func TestC16_Markers(t *testing.T) {
	st := stat("C16")
	st.SetRule("whole files (scripts with control flow, AutoVar conditions and switches, inline text and moves(), texts, movements, marts, mapscripts with inline scripts and tables, multi-line raw blocks incl. CRLF and empty ones) in which every construct has content of its own (unique command names / arguments, operands, case values, steps, items, texts, raw lines; one file in three defines constants that stand for themselves so that operands and case values pass through constant substitution), printed under a random layout (constructs spread over lines, blank lines, CRLF, # and // comments); input path: several shapes incl. backslashes and empty. oracle (optimize on and off): stripping the marker lines of the -lm output gives the -lm=false output; no markers without a path; every marker names the path and a line in 1..N; the marker before a command, label, condition operand (also of AutoVar leaves), switch operand, case, mart item, movement step, map-script entry / table row, text statement or moves() block names a line inside that construct's source span, for an inline text a line of its string literal; raw-line markers name exactly the line of the raw literal + index; inside one movement or mart block the markers never go back (one step in four repeats the name of the last step but one - a b a - and is judged by this clause only). non-trivial = >= 5 kinds of constructs identified, many line breaks and a comment; distinct by source text")
	st.Assume("'the line on which the construct was written' = any line of the construct's source span", "constructs whose output line is not unique (goto, end, return, step_end, ITEM_NONE) are not attributed")
	runRapid(t, "C16", "TestC16_Markers", genC16, checkC16, c16Src)
}
