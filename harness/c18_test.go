package harness

import (
	"fmt"
	"go/scanner"
	gotoken "go/token"
	"os"
	"path/filepath"
	"regexp"
	"strconv"
	"strings"
	"sync"
	"testing"
	"unicode/utf8"

	"github.com/huderlem/poryscript/lexer"
	"pgregory.net/rapid"
)

// C18: every input is answered promptly with output or a located error, never a crash.

type C18Case struct {
	Src   string `json:"src"`
	Flags uint32 `json:"flags"`
}

func c18Src(c *C18Case) string { return c.Src }

var c18Vocab = []string{"script", "raw", "text", "movement", "mart", "mapscripts", "format", "var", "flag", "defeated", "TRUE", "false", "if", "else", "elif", "do", "while", "break", "continue", "switch", "case", "default", "global", "local", "poryswitch", "const", "value", "moves",
	"(", ")", "{", "}", "[", "]", ",", ":", "*", "=", "==", "!=", "<", "<=", ">", ">=", "&&", "||", "!",
	"A", "B", "V", "_", "foo", "random", "specialvar", "msgbox", "end", "return", "goto", "step_end", "ITEM_NONE", "fontId", "maxLineLength", "numLines", "cursorOverlapWidth",
	"0", "1", "2", "-1", "0x10", "9999", "10000", "99999999999999999999", "３", "٣٤", "-٣", "0x", "value()", "var()", "flag()", "moves()", "format()", "defeated()", `"txt"`, `"a b c d e f"`, `ascii"x"`, `"TEST"`, `"1_latin_rse"`, `"bogus"`, "`raw`", "`", `"`, "#c\n", "//c\n", "/*", "*/", "/*/", "/* c", "\n", "\r\n", "&", "|", "€", "\x00", "\ufffd", "\ufeff", "S_1", "S_Text_0", "S_Movement_0"}

const c18Header = "script S {\n"

// c18Opts decodes option flags.
func c18Opts(flags uint32) Opts {
	o := Opts{Optimize: flags&1 != 0, LineMarkers: flags&2 != 0}
	if flags&4 != 0 {
		o.Path = "dir/file.pory"
	}
	switch (flags >> 3) & 3 {
	case 0:
		o.Switches = map[string]string{"V": "A", "W": "B", "GAME": "RUBY"}
	case 1:
		o.Switches = map[string]string{"V": "zzz"}
	case 2:
		o.Switches = nil
	default:
		o.Switches = map[string]string{"V": "1", "W": "A", "A": "B"}
	}
	switch (flags >> 5) & 3 {
	case 0:
		o.FontPath = "@repo"
	case 1:
		o.FontPath = ""
	case 2:
		o.FontJSON = "{ this is not json"
	default:
		switch (flags >> 12) & 3 {
		case 0:
			o.FontJSON = `{"defaultFontId":"F","fonts":{"F":{"widths":{"default":7," ":3},"maxLineLength":40,"numLines":2,"cursorOverlapWidth":5},"G":{"widths":{},"maxLineLength":0}}}`
		case 1: // valid JSON, hostile numbers
			o.FontJSON = `{"defaultFontId":"F","fonts":{"F":{"widths":{"default":-3," ":0,"a":100000},"maxLineLength":0,"numLines":0,"cursorOverlapWidth":-9},"":{"widths":null}}}`
		case 2: // default font id that does not exist
			o.FontJSON = `{"defaultFontId":"missing","fonts":{"F":{"widths":{"default":1},"maxLineLength":5,"numLines":1,"cursorOverlapWidth":99}}}`
		default: // valid JSON of the wrong shape
			o.FontJSON = `{"defaultFontId":"F","fonts":{}}`
		}
	}
	switch (flags >> 7) & 3 {
	case 0:
		o.FontID = ""
	case 1:
		o.FontID = "bogus"
	case 2:
		o.FontID = "TEST"
	default:
		o.FontID = "1_latin_frlg"
	}
	switch (flags >> 9) & 3 {
	case 1:
		o.MaxLen = 50
	case 2:
		o.MaxLen = -5
	case 3:
		o.MaxLen = 1
	}
	if flags&(1<<11) != 0 {
		o.Auto = RepoAuto()
	} else {
		zero := 0
		two := 2
		o.Auto = AutoCfg{"random": {VarName: "VAR_RESULT"}, "specialvar": {ArgPos: &zero}, "third": {ArgPos: &two}}
	}
	return o
}

func checkResult(r Result, src string, mode string) *Violation {
	if r.Budget {
		return viol("unbounded-work", "%s: %s\ninput %q", mode, r.Describe(), src)
	}
	if r.Panic != nil {
		return viol("panic", "%s: %s\ninput %q", mode, r.Describe(), src)
	}
	if r.Err != nil {
		if r.PErr == nil {
			return viol("unlocated-error", "%s: error of type %T carries no line range: %v\ninput %q", mode, r.Err, r.Err, src)
		}
		lines := CountLines(src)
		pe := r.PErr
		if pe.LineNumberStart < 1 || pe.LineNumberEnd > lines || pe.LineNumberStart > pe.LineNumberEnd {
			return viol("error-range", "%s: error range %d..%d is not inside the input (1..%d): %v\ninput %q", mode, pe.LineNumberStart, pe.LineNumberEnd, lines, r.Err, src)
		}
	}
	return nil
}

func checkC18(c *C18Case) *Violation {
	st := stat("C18")
	if !utf8.ValidString(c.Src) {
		st.Label("filtered-invalid-utf8")
		return nil
	}
	o := c18Opts(c.Flags)
	r := Compile(c.Src, o)
	if v := checkResult(r, c.Src, fmt.Sprintf("normal mode (flags %#x)", c.Flags)); v != nil {
		return v
	}
	lo := o
	lo.Lint = true
	rl := Compile(c.Src, lo)
	if v := checkResult(rl, c.Src, "lint mode"); v != nil {
		return v
	}
	normalParsed := r.Err == nil || r.Stage == "emit"
	lintParsed := rl.Err == nil || rl.Stage == "emit"
	if normalParsed && !lintParsed {
		return viol("lint-rejects-accepted", "normal mode accepts the program but lint mode fails: %v\ninput %q", rl.Err, c.Src)
	}
	// non-trivial: the input got past its first token
	nt := r.Err == nil
	if !nt && r.PErr != nil {
		first := lexer.New(c.Src).NextToken()
		nt = r.PErr.LineNumberStart != first.LineNumber || r.PErr.CharStart != first.StartCharIndex
	}
	lbl := "rejected"
	if r.Err == nil {
		lbl = "accepted"
	}
	st.Eval(c.Src+fmt.Sprint(c.Flags), nt, func() any {
		return map[string]any{"src": clip(c.Src, 300), "flags": c.Flags, "result": clip(r.Describe(), 120)}
	}, lbl)
	return nil
}

// ---- generators ----

func genSoup(t *rapid.T) string {
	toks := rapid.SliceOfN(rapid.SampledFrom(c18Vocab), 0, 50).Draw(t, "toks")
	sep := rapid.SampledFrom([]string{" ", " ", "\n", ""}).Draw(t, "sep")
	s := strings.Join(toks, sep)
	if rapid.IntRange(0, 2).Draw(t, "inscript") == 0 {
		s = c18Header + s
		if rapid.Bool().Draw(t, "close") {
			s += "\n}"
		}
	}
	return s
}

func genMutant(t *rapid.T) string {
	cfg := DefaultFileCfg()
	cfg.MaxTops = 3
	cfg.CF.MaxDepth = 3
	cfg.CF.PS = 7
	cfg.CF.PSNoDirectContinue = true
	f := GenFile(t, cfg)
	if rapid.IntRange(0, 3).Draw(t, "unmutated") == 0 {
		// a valid program as it is (with statement poryswitches, with and without a '_' case):
		// whatever normal mode accepts with its switches, lint mode must accept without any
		return Canon(f)
	}
	pr := PrintFile(f)
	toks := make([]string, len(pr.Toks))
	for i, tk := range pr.Toks {
		toks[i] = tk.S
		if tk.Glue && i > 0 {
			toks[i-1] += tk.S
			toks[i] = ""
		}
	}
	var f2 []string
	for _, s := range toks {
		if s != "" {
			f2 = append(f2, s)
		}
	}
	extra := []string{"text", "T", "{", `format("a b c", "TEST", 30)`, "}", "const", "C", "=", "1", "+", "2", "movement", "M", "{", "poryswitch", "(", "V", ")", "{", "A", "{", "x", "*", "2", "}", "_", ":", "y", "}", "}"}
	if rapid.Bool().Draw(t, "extra") {
		f2 = append(f2, extra...)
	}
	nm := rapid.IntRange(1, 3).Draw(t, "nmut")
	for m := 0; m < nm && len(f2) > 1; m++ {
		i := rapid.IntRange(0, len(f2)-1).Draw(t, "pos")
		switch rapid.IntRange(0, 6).Draw(t, "mut") {
		case 0:
			f2 = append(f2[:i], f2[i+1:]...)
		case 1:
			f2 = append(f2[:i], append([]string{f2[i]}, f2[i:]...)...)
		case 2:
			j := rapid.IntRange(0, len(f2)-1).Draw(t, "pos2")
			f2[i], f2[j] = f2[j], f2[i]
		case 3:
			f2[i] = rapid.SampledFrom(c18Vocab).Draw(t, "repl")
		case 4:
			f2 = f2[:i]
		case 5:
			f2 = append(f2[:i], append([]string{rapid.SampledFrom(c18Vocab).Draw(t, "ins")}, f2[i:]...)...)
		case 6:
			// empty a bracket group: delete everything between an opening bracket and its partner
			open := -1
			for k := i; k < len(f2); k++ {
				if f2[k] == "(" || f2[k] == "{" || f2[k] == "[" {
					open = k
					break
				}
			}
			if open >= 0 {
				depth, closeAt := 0, -1
				for k := open; k < len(f2); k++ {
					switch f2[k] {
					case "(", "{", "[":
						depth++
					case ")", "}", "]":
						depth--
						if depth == 0 && closeAt < 0 {
							closeAt = k
						}
					}
					if closeAt >= 0 {
						break
					}
				}
				if closeAt > open+1 {
					f2 = append(f2[:open+1], f2[closeAt:]...)
				}
			}
		}
	}
	s := strings.Join(f2, rapid.SampledFrom([]string{" ", " ", "\n"}).Draw(t, "sep"))
	if rapid.IntRange(0, 6).Draw(t, "bytetrunc") == 0 && len(s) > 0 {
		k := rapid.IntRange(0, len(s)).Draw(t, "cut")
		for k > 0 && k < len(s) && !utf8.RuneStart(s[k]) {
			k--
		}
		s = s[:k]
	}
	return s
}

var hostile = []string{"/*", "/* never closed", "/*/", "*/", "３", "٣", "value()", "var(A) == value()", "flag()", "moves()", "format()", "poryswitch(V){}", "switch(var(A)){}", "text T {}", "mapscripts M { A [ ] }", "mapscripts M { A [ , : ] }", "movement M { x * }", "const C =", "A(global)", "()", "{}", "[]", "\x00", "\ufffd", "\ufeff", `"`, "`", "\\", "\r", "\n", "\t", "{", "}", "(", ")", "0x", "-", "*", "script", "text T { \"", "format(", "poryswitch(V){", "switch(var(A)){case ", "if(", "moves(", "raw `", "mapscripts M { A [", "const C = ", " ", "\U0001F600", "é"}

func genHostile(t *rapid.T) string {
	switch rapid.IntRange(0, 6).Draw(t, "hk") {
	case 0: // deep parentheses in a condition
		n := rapid.IntRange(1, 300).Draw(t, "depth")
		cl := rapid.IntRange(0, n).Draw(t, "closed")
		return "script S { if (" + strings.Repeat("(", n) + "flag(A)" + strings.Repeat(")", cl) + ") { x } }"
	case 1: // deep blocks
		n := rapid.IntRange(1, 200).Draw(t, "depth")
		cl := rapid.IntRange(0, n).Draw(t, "closed")
		kw := rapid.SampledFrom([]string{"if (flag(A)) {", "while {", "do {", "switch (var(V)) { case 1:", "poryswitch(V) { A {"}).Draw(t, "kw")
		return "script S { " + strings.Repeat(kw+" ", n) + "x " + strings.Repeat("} ", cl) + "}"
	case 2: // long repetitions
		unit := rapid.SampledFrom(c18Vocab).Draw(t, "unit")
		n := rapid.IntRange(1, 400).Draw(t, "rep")
		pre := rapid.SampledFrom([]string{"", "script S { ", "movement M { ", "mart K { ", "text T { ", "mapscripts M { ", "const C = "}).Draw(t, "pre")
		return pre + strings.Repeat(unit+" ", n)
	case 3: // big multipliers
		n := rapid.IntRange(1, 6).Draw(t, "nmul")
		var sb strings.Builder
		sb.WriteString("movement M { ")
		for i := 0; i < n; i++ {
			fmt.Fprintf(&sb, "s * %s ", rapid.SampledFrom([]string{"9999", "10000", "0", "-1", "0x270F", "99999999999999999999", "1", "9223372036854775807", "4000000000000", "0x7FFFFFFFFFFFFFFF", "00", "0x0"}).Draw(t, "mul"))
		}
		if rapid.Bool().Draw(t, "closem") {
			sb.WriteString("}")
		}
		return sb.String()
	case 4: // arbitrary unicode
		return rapid.String().Draw(t, "str")
	case 5: // small constant graphs (self / mutual / forward references) and uses at every substitution site
		names := []string{"A", "B", "K", "VAR_RESULT"}
		var sb strings.Builder
		n := rapid.IntRange(1, 4).Draw(t, "nconst")
		for i := 0; i < n; i++ {
			fmt.Fprintf(&sb, "const %s = %s\n", rapid.SampledFrom(names).Draw(t, "cname"), strings.Join(rapid.SliceOfN(rapid.SampledFrom(append([]string{"1", "+", "X"}, names...)), 1, 3).Draw(t, "cval"), " "))
		}
		u := func() string { return rapid.SampledFrom(names).Draw(t, "use") }
		fmt.Fprintf(&sb, "script S { c(%s, %s) if (var(%s) == %s && flag(%s)) { x } switch (var(%s)) { case %s: y } if (random(%s) == %s) { z } }\n", u(), u(), u(), u(), u(), u(), u(), u(), u())
		fmt.Fprintf(&sb, "mart M { %s ITEM_X }\nmapscripts MS { T [ %s, %s: L ] }\nconst Z = %s\n", u(), u(), u(), u())
		return sb.String()
	default: // hostile fragments glued together
		parts := rapid.SliceOfN(rapid.SampledFrom(hostile), 1, 12).Draw(t, "frags")
		return strings.Join(parts, rapid.SampledFrom([]string{"", " ", "A"}).Draw(t, "glue"))
	}
}

func genC18(t *rapid.T) *C18Case {
	var src string
	switch rapid.IntRange(0, 9).Draw(t, "mode") {
	case 0, 1, 2:
		src = genSoup(t)
	case 3, 4, 5, 6:
		src = genMutant(t)
	case 7:
		src = rapid.SampledFrom(corpus()).Draw(t, "corpus")
		if rapid.Bool().Draw(t, "trunc") && len(src) > 0 {
			k := rapid.IntRange(0, len(src)).Draw(t, "cut")
			for k > 0 && k < len(src) && !utf8.RuneStart(src[k]) {
				k--
			}
			src = src[:k]
		}
	default:
		src = genHostile(t)
	}
	return &C18Case{Src: src, Flags: rapid.Uint32Range(0, 1<<14-1).Draw(t, "flags")}
}

// ---- corpus: every string literal of the pinned tests that looks like a program, README code blocks ----

var corpusOnce sync.Once
var corpusList []string

func corpus() []string {
	corpusOnce.Do(func() {
		seen := map[string]bool{}
		add := func(s string) {
			if len(s) >= 6 && len(s) < 20000 && !seen[s] && utf8.ValidString(s) {
				seen[s] = true
				corpusList = append(corpusList, s)
			}
		}
		files, _ := filepath.Glob(filepath.Join(repoRoot, "*", "*_test.go"))
		for _, f := range files {
			b, err := os.ReadFile(f)
			if err != nil {
				continue
			}
			fset := gotoken.NewFileSet()
			file := fset.AddFile(f, fset.Base(), len(b))
			var sc scanner.Scanner
			sc.Init(file, b, nil, 0)
			for {
				_, tok, lit := sc.Scan()
				if tok == gotoken.EOF {
					break
				}
				if tok == gotoken.STRING {
					if s, err := strconv.Unquote(lit); err == nil && strings.ContainsAny(s, "{(") {
						add(s)
					}
				}
			}
		}
		if b, err := os.ReadFile(filepath.Join(repoRoot, "README.md")); err == nil {
			re := regexp.MustCompile("(?s)```[a-z]*\n(.*?)```")
			for _, m := range re.FindAllStringSubmatch(string(b), -1) {
				add(m[1])
			}
		}
		for _, h := range []string{"script S { x }", "\ufffd", "text T { format(\"a\") }", "\x00", "`", "\"", "script S { if (flag(A) && (flag(B)) || flag(C)) { x } }"} {
			add(h)
		}
		sortStrings(corpusList)
	})
	return corpusList
}

func init() { register("C18", "TestC18_Robust", checkC18, c18Src) }

const c18Rule = "inputs: token soup over a 110-word vocabulary (incl. NUL, U+FFFD, BOM, lone quotes/backticks, names imitating generated labels); valid generated whole files mutated by deleting/duplicating/swapping/replacing/inserting tokens, emptying bracket groups and truncation at tokens and bytes; every string literal of the pinned tests and README code block (also truncated); the complete one-edit neighbourhood of 42 template programs (35 valid ones, one per production, and 7 near misses), one per production (TestC18_Enum); hostile shapes (parentheses and blocks nested up to 300 deep, 400-fold repetitions, boundary multipliers, arbitrary unicode); 16384 option combinations (optimize, line markers, path, switches, font config present/absent/garbage/custom/hostile numbers/missing default/empty, default font, line length, command config). oracle: no panic, token budget not exceeded, error is a ParseError with 1<=start<=end<=lines, same in lint mode, lint accepts what normal accepts. non-trivial = accepted, or the error is located beyond the first token; distinct by (input, flags)"

func TestC18_Regress(t *testing.T) { runRegress(t, "C18") }

func TestC18_Robust(t *testing.T) {
	st := stat("C18")
	st.SetRule(c18Rule)
	st.Assume("'promptly / bounded' is decided as bounded work: the verif hook's token budget of 4*len(input)+256 tokens; loops that consume no tokens would show up as a job timeout (exit 2, inconclusive)", "inputs that are not valid UTF-8 are outside the property and filtered")
	if !hooksEnabled {
		t.Fatal("harness built without -tags verif")
	}
	runRapid(t, "C18", "TestC18_Robust", genC18, checkC18, c18Src)
}

// FuzzC18 is the native coverage-guided target (thorough tier).
func FuzzC18(f *testing.F) {
	for i, s := range corpus() {
		f.Add(s, uint32(i*37))
	}
	for _, h := range hostile {
		f.Add(h, uint32(0))
	}
	f.Fuzz(func(t *testing.T, src string, flags uint32) {
		c := &C18Case{Src: src, Flags: flags & (1<<14 - 1)}
		if len(src) > 1<<16 {
			return
		}
		if v := checkC18(c); v != nil {
			recordFail("TestC18_Robust", v, c, src)
			flushFail("C18", "TestC18_Robust")
			t.Fatalf("%s: %s", v.Clause, clip(v.Detail, 2000))
		}
	})
}
