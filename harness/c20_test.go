package harness

import (
	"fmt"
	"strings"
	"testing"

	"pgregory.net/rapid"
)

// C20: ill-formed control flow and name clashes are rejected at the offending line.

type C20Case struct {
	File     *File             `json:"file"` // the program WITH the injected fault (nodes marked inj)
	Kind     string            `json:"kind"`
	Gaps     []string          `json:"gaps"`
	Switches map[string]string `json:"switches,omitempty"`
	Deep     bool              `json:"deep,omitempty"`
}

func c20Src(c *C20Case) string {
	pr := PrintFile(c.File)
	return pr.Layout(FixedGaps(c.Gaps)).Src
}

var c20Opts = Opts{Optimize: true, FontPath: "@repo", Auto: c16Auto}

// injSpan finds the span of the node marked as injected (after printing).
func injSpan(f *File) int {
	span := 0
	var doBlock func(b *Block)
	doBlock = func(b *Block) {
		if b == nil {
			return
		}
		for _, s := range b.Stmts {
			if s.Inj {
				span = s.Span
			}
			switch s.K {
			case "if":
				for _, a := range s.If.Arms {
					doBlock(a.Body)
				}
				doBlock(s.If.Else)
			case "while":
				doBlock(s.While.Body)
			case "dowhile":
				doBlock(s.Do.Body)
			case "switch":
				for _, c := range s.Switch.Cases {
					if c.Inj {
						span = c.Span
					}
					doBlock(c.Body)
				}
			case "ps":
				for _, c := range s.PS.Cases {
					doBlock(c.Body)
				}
			}
		}
	}
	for _, t := range f.Tops {
		if t.Inj {
			switch t.K {
			case "const":
				span = t.Const.Span
			case "text":
				span = t.Text.Span
			case "movement":
				span = t.Movement.Span
			}
		}
		switch t.K {
		case "script":
			doBlock(t.Script.Body)
		case "mapscripts":
			for _, e := range t.Map.Entries {
				doBlock(e.Body)
				for _, r := range e.Rows {
					doBlock(r.Body)
				}
			}
		}
	}
	return span
}

func checkC20(c *C20Case) *Violation {
	st := stat("C20")
	pr := PrintFile(c.File)
	pl := pr.Layout(FixedGaps(c.Gaps))
	src := pl.Src
	span := injSpan(c.File)
	if span == 0 {
		panic("harness: C20 case without an injected node")
	}
	lo, hi := pl.SpanLines(span)
	o := c20Opts
	o.Switches = c.Switches
	for _, opt := range []bool{true, false} {
		o.Optimize = opt
		res := Compile(src, o)
		if res.Panic != nil || res.Budget {
			return viol("crash", "%s\n--- source\n%s", res.Describe(), src)
		}
		if res.Err == nil {
			return viol("ill-formed-accepted", "injected fault '%s' on lines %d-%d, but the program was compiled into something\n--- source\n%s--- output\n%s", c.Kind, lo, hi, numbered(src), res.Out)
		}
		if res.PErr == nil {
			return viol("unlocated-error", "injected fault '%s': the error carries no line: %v\n--- source\n%s", c.Kind, res.Err, numbered(src))
		}
		if res.PErr.LineNumberStart < lo || res.PErr.LineNumberStart > hi {
			return viol("wrong-line", "injected fault '%s' is written on lines %d-%d, the error is reported on line %d: %v\n--- source\n%s", c.Kind, lo, hi, res.PErr.LineNumberStart, res.Err, numbered(src))
		}
	}
	st.Eval(src, c.Deep, func() any { return map[string]any{"kind": c.Kind, "src": clip(src, 700)} }, "kind="+c.Kind)
	return nil
}

// ---- injection ----

type injPoint struct {
	b                  *Block
	depth              int
	inLoop, inBrk      bool
	inPS, inCase, inMS bool
}

func collectInjPoints(f *File) []injPoint {
	var pts []injPoint
	var doBlock func(b *Block, p injPoint)
	doBlock = func(b *Block, p injPoint) {
		if b == nil {
			return
		}
		p.b = b
		pts = append(pts, p)
		for _, s := range b.Stmts {
			q := p
			q.depth++
			switch s.K {
			case "if":
				for _, a := range s.If.Arms {
					doBlock(a.Body, q)
				}
				doBlock(s.If.Else, q)
			case "while":
				q.inLoop, q.inBrk = true, true
				doBlock(s.While.Body, q)
			case "dowhile":
				q.inLoop, q.inBrk = true, true
				doBlock(s.Do.Body, q)
			case "switch":
				q.inBrk, q.inCase = true, true
				for _, c := range s.Switch.Cases {
					doBlock(c.Body, q)
				}
			case "ps":
				q.inPS = true
				for _, c := range s.PS.Cases {
					if c.Brace {
						doBlock(c.Body, q)
					}
				}
			}
		}
	}
	for _, t := range f.Tops {
		switch t.K {
		case "script":
			doBlock(t.Script.Body, injPoint{})
		case "mapscripts":
			for _, e := range t.Map.Entries {
				doBlock(e.Body, injPoint{inMS: true})
				for _, r := range e.Rows {
					doBlock(r.Body, injPoint{inMS: true})
				}
			}
		}
	}
	return pts
}

func insertStmt(b *Block, idx int, s *Stmt) {
	b.Stmts = append(b.Stmts[:idx], append([]*Stmt{s}, b.Stmts[idx:]...)...)
}

func collectSwitches(f *File) []*Switch {
	var sws []*Switch
	_, blocks := EntryBlocks(f)
	names, _ := EntryBlocks(f)
	for _, n := range names {
		findSwitches(blocks[n], &sws)
	}
	return sws
}

func genC20(t *rapid.T) *C20Case {
	cfg := DefaultFileCfg()
	cfg.CF.MaxDepth = 3
	cfg.CF.Auto = c16Auto
	cfg.CF.AutoP = 6
	cfg.CF.PS = 10
	cfg.CF.PSNoDirectContinue = true
	cfg.CF.PSNestedFallback = true
	cfg.CF.PSAlwaysFallback = true
	cfg.MaxTops = 5
	f := GenFile(t, cfg)
	c := &C20Case{File: f, Switches: map[string]string{"V": "A", "W": "B"}}
	// the uninjected program must be accepted (otherwise the case says nothing)
	o := c20Opts
	o.Switches = c.Switches
	base := Compile(Canon(f), o)
	if !base.OK() {
		stat("C20").Label("base-rejected")
		stat("C20").Note("last_base_rejection", clip(base.Describe()+"\n"+Canon(f), 600))
		t.Skip("base program rejected")
	}
	pts := collectInjPoints(f)
	kinds := []string{"break-outside", "continue-outside-loop", "continue-not-last", "continue-last-in-poryswitch-case", "duplicate-case", "second-default", "redefined-const", "text-name-clash", "movement-name-clash", "label-clash-sublabel", "label-clash-text"}
	// rarely applicable kinds first (a uniformly random order would almost always end in break / continue injections)
	rare := []string{"second-default", "duplicate-case", "continue-last-in-poryswitch-case", "continue-not-last", "label-clash-sublabel", "text-name-clash", "movement-name-clash", "label-clash-text"}
	order := rapid.Permutation(kinds).Draw(t, "kinds")
	if rapid.IntRange(0, 2).Draw(t, "rarefirst") != 0 {
		order = append(rapid.Permutation(rare).Draw(t, "rarekinds"), order...)
	}
	for _, kind := range order {
		switch kind {
		case "break-outside", "continue-outside-loop", "continue-not-last":
			var cand []injPoint
			for _, p := range pts {
				switch kind {
				case "break-outside":
					if !p.inBrk {
						cand = append(cand, p)
					}
				case "continue-outside-loop":
					if !p.inLoop {
						cand = append(cand, p)
					}
				case "continue-not-last":
					if p.inLoop && len(p.b.Stmts) > 0 {
						cand = append(cand, p)
					}
				}
			}
			if len(cand) == 0 {
				continue
			}
			p := cand[rapid.IntRange(0, len(cand)-1).Draw(t, "point")]
			st := &Stmt{K: "break", Inj: true}
			idx := rapid.IntRange(0, len(p.b.Stmts)).Draw(t, "idx")
			if kind != "break-outside" {
				st.K = "continue"
			}
			if kind == "continue-not-last" {
				idx = rapid.IntRange(0, len(p.b.Stmts)-1).Draw(t, "idx2")
			}
			insertStmt(p.b, idx, st)
			c.Kind = kind
			c.Deep = p.depth >= 2 || p.inCase || p.inMS || p.inPS
		case "continue-last-in-poryswitch-case":
			// continue as the last statement of a poryswitch case, with statements after the poryswitch:
			// not last in its block once the case is written out. Known finding (section 11, row 9):
			// generated only when the listed input no longer fails.
			if excluded("C20", "continue-direct-in-poryswitch-case") {
				continue
			}
			type target struct {
				b *Block
				d int
			}
			var cand []target
			for _, p := range pts {
				if !p.inLoop {
					continue
				}
				for i, s := range p.b.Stmts {
					if s.K == "ps" && i < len(p.b.Stmts)-1 {
						for _, cs := range s.PS.Cases {
							if cs.Brace && cs.Key == c.Switches[s.PS.Var] {
								cand = append(cand, target{cs.Body, p.depth})
							}
						}
					}
				}
			}
			if len(cand) == 0 {
				continue
			}
			tg := cand[rapid.IntRange(0, len(cand)-1).Draw(t, "pscase")]
			tg.b.Stmts = append(tg.b.Stmts, &Stmt{K: "continue", Inj: true})
			c.Kind = kind
			c.Deep = true
		case "duplicate-case", "second-default":
			sws := collectSwitches(f)
			var cand []*Switch
			for _, sw := range sws {
				hasDef, hasCase := false, false
				for _, cs := range sw.Cases {
					if cs.IsDefault {
						hasDef = true
					} else {
						hasCase = true
					}
				}
				if (kind == "duplicate-case" && hasCase) || (kind == "second-default" && hasDef) {
					cand = append(cand, sw)
				}
			}
			if len(cand) == 0 {
				continue
			}
			sw := cand[rapid.IntRange(0, len(cand)-1).Draw(t, "switch")]
			nc := &Case{Inj: true, Body: &Block{Stmts: []*Stmt{}}}
			if rapid.Bool().Draw(t, "withbody") {
				nc.Body.Stmts = append(nc.Body.Stmts, sCmd(&Cmd{Name: "injected_body"}))
			}
			first := -1
			if kind == "second-default" {
				nc.IsDefault = true
				for i, cs := range sw.Cases {
					if cs.IsDefault {
						first = i
					}
				}
			} else {
				var idxs []int
				for i, cs := range sw.Cases {
					if !cs.IsDefault {
						idxs = append(idxs, i)
					}
				}
				first = idxs[rapid.IntRange(0, len(idxs)-1).Draw(t, "dupof")]
				if rapid.IntRange(0, 3).Draw(t, "respell") == 0 {
					// the duplicated value is written in hex / with a leading zero / negative (both times the same way)
					sw.Cases[first].Val = []string{rapid.SampledFrom([]string{"0x10", "07", "010", "-0", "0X1f"}).Draw(t, "respelled")}
					for i, cs := range sw.Cases {
						if i != first && !cs.IsDefault && len(cs.Val) == 1 && cs.Val[0] == sw.Cases[first].Val[0] {
							cs.Val = []string{"4711"}
						}
					}
				}
				nc.Val = append([]string{}, sw.Cases[first].Val...)
				if rapid.IntRange(0, 2).Draw(t, "viaconst") == 0 {
					// equal only after constant expansion
					f.Tops = append([]*Top{{K: "const", Const: &Const{Name: "DUP_CONST", Val: nc.Val}}}, f.Tops...)
					nc.Val = []string{"DUP_CONST"}
				}
			}
			// a trailing 'continue' in the last case body would no longer be last: insert before the last case unless it is the referenced one
			pos := rapid.IntRange(first+1, len(sw.Cases)).Draw(t, "casepos")
			if pos == len(sw.Cases) && len(sw.Cases) > 0 {
				last := sw.Cases[len(sw.Cases)-1].Body.Stmts
				if len(last) > 0 && last[len(last)-1].K == "continue" {
					pos = len(sw.Cases) - 1
					if pos <= first {
						continue
					}
				}
			}
			sw.Cases = append(sw.Cases[:pos], append([]*Case{nc}, sw.Cases[pos:]...)...)
			c.Kind = kind
			c.Deep = true
		case "redefined-const":
			firstVal := rapid.SampledFrom([][]string{{"1"}, {"RE_CONST"}, {"FOO", "+", "1"}, {"RE_CONST", "+", "1"}}).Draw(t, "firstval")
			f.Tops = append([]*Top{{K: "const", Const: &Const{Name: "RE_CONST", Val: firstVal}}}, f.Tops...)
			pos := rapid.IntRange(1, len(f.Tops)).Draw(t, "constpos")
			second := []string{"2"}
			if rapid.IntRange(0, 2).Draw(t, "samevalue") == 0 {
				second = append([]string{}, firstVal...) // a redefinition is a redefinition, also with the same value
			}
			top := &Top{K: "const", Const: &Const{Name: "RE_CONST", Val: second}, Inj: true}
			f.Tops = append(f.Tops[:pos], append([]*Top{top}, f.Tops[pos:]...)...)
			c.Kind = kind
		case "text-name-clash", "movement-name-clash", "label-clash-sublabel", "label-clash-text":
			a := ParseAsm(base.Out)
			m := collectNames(f)
			var names []string
			for l := range a.Labels {
				switch kind {
				case "text-name-clash":
					if strings.Contains(l, "_Text_") && isHoistedLabel(l) {
						names = append(names, l)
					}
				case "movement-name-clash":
					if strings.Contains(l, "_Movement_") && isHoistedLabel(l) {
						names = append(names, l)
					}
				case "label-clash-sublabel":
					if m.genSubLabel(l) {
						names = append(names, l)
					}
					if isScriptName(f, l) {
						names = append(names, l) // the entry label is a generated label of its script too
					}
				case "label-clash-text":
					if strings.Contains(l, "_Text_") && isHoistedLabel(l) {
						names = append(names, l)
					}
				}
			}
			if kind == "label-clash-text" {
				for _, tp := range f.Tops {
					if tp.K == "text" {
						names = append(names, tp.Text.Name)
					}
				}
			}
			if len(names) == 0 {
				continue
			}
			sortStrings(names)
			name := names[rapid.IntRange(0, len(names)-1).Draw(t, "clashname")]
			switch kind {
			case "text-name-clash":
				top := &Top{K: "text", Text: &TextStmt{Name: name, Scope: rapid.SampledFrom([]string{"", "global", "local"}).Draw(t, "clashscope"), Val: &TextVal{Lit: &StrLit{Parts: []string{"user text"}}}}, Inj: true}
				pos := rapid.IntRange(0, len(f.Tops)).Draw(t, "toppos")
				f.Tops = append(f.Tops[:pos], append([]*Top{top}, f.Tops[pos:]...)...)
			case "movement-name-clash":
				top := &Top{K: "movement", Movement: &Movement{Name: name, Scope: rapid.SampledFrom([]string{"", "global", "local"}).Draw(t, "clashscope"), Steps: []*Step{{Name: "walk_up"}}}, Inj: true}
				pos := rapid.IntRange(0, len(f.Tops)).Draw(t, "toppos")
				f.Tops = append(f.Tops[:pos], append([]*Top{top}, f.Tops[pos:]...)...)
			case "label-clash-sublabel":
				// the label goes first in the body of the script that owns the sub-label
				mm := subLabelRe.FindStringSubmatch(name)
				if isScriptName(f, name) {
					mm = []string{name, name}
				}
				_, blocks := EntryBlocks(f)
				b := blocks[mm[1]]
				if b == nil {
					continue
				}
				insertStmt(b, 0, &Stmt{K: "label", Label: &LabelS{Name: name, Scope: rapid.SampledFrom([]string{"", "", "global", "local"}).Draw(t, "clashlabelscope")}, Inj: true})
				c.Deep = !isScriptName(f, mm[1])
			case "label-clash-text":
				// in a script or in an inline map script
				enames, eblocks := EntryBlocks(f)
				if len(enames) == 0 {
					continue
				}
				en := enames[rapid.IntRange(0, len(enames)-1).Draw(t, "script")]
				insertStmt(eblocks[en], 0, &Stmt{K: "label", Label: &LabelS{Name: name, Scope: rapid.SampledFrom([]string{"", "", "global", "local"}).Draw(t, "clashlabelscope")}, Inj: true})
				c.Deep = !isScriptName(f, en)
			}
			c.Kind = kind
		}
		if c.Kind != "" {
			break
		}
	}
	if c.Kind == "" {
		t.Skip("no injection point")
	}
	c.Gaps = drawGaps(t, len(PrintFile(f).Toks), true)
	return c
}

func isScriptName(f *File, n string) bool {
	for _, s := range f.Scripts() {
		if s.Name == n {
			return true
		}
	}
	return false
}

func init() { register("C20", "TestC20_Reject", checkC20, c20Src) }

func TestC20_Regress(t *testing.T) { runRegress(t, "C20") }

func TestC20_Reject(t *testing.T) {
	st := stat("C20")
	st.SetRule("a valid generated whole file (scripts with control flow, poryswitch, inline map scripts, texts, movements; accepted by the compiler before injection, otherwise discarded and counted) gets exactly one injected fault at a position the model proves illegal: break outside any loop/switch (script top level, if arms, inline map scripts, poryswitch cases), continue outside a loop (also inside a switch that is not in a loop), continue followed by another statement inside a loop, a duplicate case value (also equal only after constant expansion), a second default, a redefined constant, a text / movement statement named like a hoisted label the program really produces, a script label equal to a generated sub-label of its script or to a text label; the program is printed under a random layout. oracle (optimize on and off): compilation fails with a ParseError whose start line lies in the source span of the injected construct. non-trivial = injection at nesting depth >= 2 or inside a switch body / inline map script / poryswitch case; distinct by source text")
	st.Assume("the offending construct of a duplicate is the later one in the source; for name clashes it is the user's statement / label")
	runRapid(t, "C20", "TestC20_Reject", genC20, checkC20, c20Src)
}

var _ = fmt.Sprint
