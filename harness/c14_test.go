package harness

import (
	"fmt"
	"strings"
	"testing"

	"pgregory.net/rapid"
)

// C14: movement and mart lists are expanded, ordered and terminated exactly once.

type C14Case struct {
	File     *File             `json:"file"`
	Switches map[string]string `json:"switches,omitempty"`
	BadMul   string            `json:"badmul,omitempty"` // when set, the file contains this out-of-range multiplier and must be rejected
}

func c14Src(c *C14Case) string { return CanonMaybeDense(c.File) }

var goodMuls = []string{"1", "2", "3", "5", "0x2", "0x10", "12"}
var badMuls = []string{"0", "-1", "-9999", "10000", "0x2710", "99999", "99999999999999999999", "0x0", "-0x1"}

type c14gen struct {
	t              *rapid.T
	big            int // number of 9999-multipliers still allowed
	depth          int
	nestedFallback bool
}

func (g *c14gen) step() *Step {
	t := g.t
	s := &Step{Name: rapid.SampledFrom(stepPool).Draw(t, "step")}
	switch rapid.IntRange(0, 9).Draw(t, "mulkind") {
	case 0, 1, 2:
		s.Mul = rapid.SampledFrom(goodMuls).Draw(t, "mul")
	case 3:
		if g.big > 0 && s.Name != "step_end" {
			g.big--
			s.Mul = rapid.SampledFrom([]string{"9999", "0x270F", "9998"}).Draw(t, "bigmul")
		}
	}
	return s
}

func (g *c14gen) steps(max int, allowComma bool) []*Step {
	t := g.t
	n := rapid.IntRange(0, max).Draw(t, "nsteps")
	out := []*Step{}
	for i := 0; i < n; i++ {
		switch k := rapid.IntRange(0, 9).Draw(t, "entry"); {
		case k == 0 && allowComma:
			out = append(out, &Step{Comma: true})
		case k == 1 && g.depth < 2:
			out = append(out, &Step{PS: g.psList(true)})
		default:
			out = append(out, g.step())
		}
	}
	return out
}

func (g *c14gen) items(max int) []*Item {
	t := g.t
	n := rapid.IntRange(0, max).Draw(t, "nitems")
	out := []*Item{}
	for i := 0; i < n; i++ {
		if rapid.IntRange(0, 7).Draw(t, "itemps") == 0 && g.depth < 2 {
			out = append(out, &Item{PS: g.psList(false)})
		} else {
			out = append(out, &Item{Name: rapid.SampledFrom(itemPool).Draw(t, "item")})
		}
	}
	return out
}

func (g *c14gen) psList(movement bool) *PSList {
	t := g.t
	g.depth++
	defer func() { g.depth-- }()
	ps := &PSList{Var: rapid.SampledFrom([]string{"V", "W"}).Draw(t, "psvar")}
	keys := rapid.Permutation([]string{"A", "B", "1", "_", "0x2", "02"}).Draw(t, "pskeys") // (numeric keys are compared as written)
	nk := rapid.SampledFrom([]int{0, 1, 1, 2, 2, 3, 4}).Draw(t, "npskeys") // (no case at all: nothing matches, so the program is rejected)
	keys = keys[:nk]
	if g.depth > 1 && g.nestedFallback {
		// a nested poryswitch always has a fallback: what happens to a nested poryswitch
		// without a matching case inside an unselected case is C12's subject, not C14's
		has := false
		for _, k := range keys {
			if k == "_" {
				has = true
			}
		}
		if !has {
			keys = append(keys, "_")
		}
	}
	for _, k := range keys {
		c := &PSListCase{Key: k, Brace: rapid.Bool().Draw(t, "brace")}
		if movement {
			if c.Brace {
				c.Steps = g.steps(3, true)
			} else {
				c.Steps = []*Step{g.step()} // colon form: exactly one entry
			}
		} else {
			if c.Brace {
				c.Items = g.items(3)
			} else {
				c.Items = []*Item{{Name: rapid.SampledFrom(itemPool).Draw(t, "item")}}
			}
		}
		ps.Cases = append(ps.Cases, c)
	}
	return ps
}

func genC14(t *rapid.T) *C14Case {
	g := &c14gen{t: t, big: 1, nestedFallback: true}
	c := &C14Case{File: &File{}, Switches: map[string]string{"V": rapid.SampledFrom([]string{"A", "B", "1", "zz", "0x2", "02", "2"}).Draw(t, "v"), "W": rapid.SampledFrom([]string{"A", "_", "q"}).Draw(t, "w")}}
	n := rapid.IntRange(1, 4).Draw(t, "ntops")
	sc := &Script{Name: "S", Body: &Block{Stmts: []*Stmt{}}}
	scope := func() string {
		if rapid.IntRange(0, 3).Draw(t, "scoped") == 0 {
			return rapid.SampledFrom([]string{"global", "local"}).Draw(t, "scope")
		}
		return ""
	}
	for i := 0; i < n; i++ {
		switch rapid.IntRange(0, 2).Draw(t, "kind") {
		case 0:
			c.File.Tops = append(c.File.Tops, &Top{K: "movement", Movement: &Movement{Name: fmt.Sprintf("Mov%d", i), Scope: scope(), Steps: g.steps(12, true)}})
		case 1:
			c.File.Tops = append(c.File.Tops, &Top{K: "mart", Mart: &Mart{Name: fmt.Sprintf("Mart%d", i), Scope: scope(), Items: g.items(8)}})
		default:
			sc.Body.Stmts = append(sc.Body.Stmts, sCmd(&Cmd{Name: fmt.Sprintf("c%d", i), Args: []*Arg{{Toks: []string{"OBJ"}}, {IsMv: true, Moves: g.steps(8, true)}}}))
		}
	}
	// constants used as mart items (documented substitution site): the terminator rule applies to the value
	if rapid.IntRange(0, 2).Draw(t, "martconst") == 0 {
		val := rapid.SampledFrom([]string{"ITEM_NONE", "ITEM_POTION", "ITEM_NONE"}).Draw(t, "martconstval")
		used := false
		for _, tp := range c.File.Tops {
			if tp.K == "mart" {
				for _, it := range tp.Mart.Items {
					if it.PS == nil && rapid.IntRange(0, 2).Draw(t, "useconst") == 0 {
						it.Name = "ITEM_CONST"
						used = true
					}
				}
			}
		}
		if used {
			c.File.Tops = append([]*Top{{K: "const", Const: &Const{Name: "ITEM_CONST", Val: []string{val}}}}, c.File.Tops...)
		}
	}
	// a constant spelled like a poryswitch case key: case keys are not substitution sites
	if rapid.IntRange(0, 4).Draw(t, "keyconst") == 0 {
		key := rapid.SampledFrom([]string{"A", "B", "walk_up", "delay_16", "step_end"}).Draw(t, "keyconstname") // (nor are movement steps)
		c.File.Tops = append([]*Top{{K: "const", Const: &Const{Name: key, Val: []string{"ITEM_KEYCONST"}}}}, c.File.Tops...)
	}
	if len(sc.Body.Stmts) > 0 {
		pos := rapid.IntRange(0, len(c.File.Tops)).Draw(t, "scriptpos")
		top := &Top{K: "script", Script: sc}
		// the commands with moves() may also sit in an inline map script or in an inline table row
		switch rapid.IntRange(0, 3).Draw(t, "movesowner") {
		case 0:
			top = &Top{K: "mapscripts", Map: &MapScripts{Name: "MapS", Entries: []*MSEntry{{Kind: "inline", Type: "MAP_SCRIPT_ON_LOAD", Body: sc.Body}}}}
		case 1:
			top = &Top{K: "mapscripts", Map: &MapScripts{Name: "MapS", Entries: []*MSEntry{{Kind: "table", Type: "MAP_SCRIPT_ON_FRAME_TABLE", Rows: []*MSRow{{Var: []string{"VAR_TEMP_0"}, Val: []string{"0"}, Body: sc.Body}}}}}}
		}
		c.File.Tops = append(c.File.Tops[:pos], append([]*Top{top}, c.File.Tops[pos:]...)...)
	}
	// injected out-of-range multiplier (in a selected or unselected position: both must be rejected or... only
	// where it is parsed: the compiler parses every case, so any position is rejected)
	if rapid.IntRange(0, 5).Draw(t, "inject") == 0 {
		var all []*Step
		var collect func(st []*Step)
		collect = func(st []*Step) {
			for _, s := range st {
				if s.PS != nil {
					for _, cs := range s.PS.Cases {
						collect(cs.Steps)
					}
				} else if !s.Comma {
					all = append(all, s)
				}
			}
		}
		for _, tp := range c.File.Tops {
			if tp.K == "movement" {
				collect(tp.Movement.Steps)
			}
			if tp.K == "script" {
				for _, s := range tp.Script.Body.Stmts {
					collect(s.Cmd.Args[1].Moves)
				}
			}
		}
		if len(all) > 0 {
			s := all[rapid.IntRange(0, len(all)-1).Draw(t, "injectpos")]
			c.BadMul = rapid.SampledFrom(badMuls).Draw(t, "badmul")
			s.Mul = c.BadMul
		}
	}
	// some of the commands with moves() sit in a statement poryswitch (matching case, fallback, colon or brace
	// form). Only commands without a list poryswitch of their own: a poryswitch without a matching case inside an
	// unselected case is C12's known finding
	for i, s := range sc.Body.Stmts {
		if s.K != "cmd" || rapid.IntRange(0, 3).Draw(t, "inps") != 0 {
			continue
		}
		plain := true
		for _, st := range s.Cmd.Args[1].Moves {
			if st.PS != nil {
				plain = false
			}
		}
		if !plain {
			continue
		}
		var osteps []*Step
		for k, n := 0, rapid.IntRange(0, 3).Draw(t, "inpsn"); k < n; k++ {
			osteps = append(osteps, &Step{Name: rapid.SampledFrom(stepPool).Draw(t, "inpsstep"), Mul: rapid.SampledFrom([]string{"", "", "2", "3"}).Draw(t, "inpsmul")})
		}
		other := sCmd(&Cmd{Name: s.Cmd.Name + "x", Args: []*Arg{{Toks: []string{"OBJ"}}, {IsMv: true, Moves: osteps}}})
		key := rapid.SampledFrom([]string{"A", "B", "zz", "1"}).Draw(t, "inpskey")
		cases := []*PSStmtCase{{Key: key, Brace: rapid.Bool().Draw(t, "inpsbrace"), Body: &Block{Stmts: []*Stmt{s}}}, {Key: "_", Brace: rapid.Bool().Draw(t, "inpsbrace2"), Body: &Block{Stmts: []*Stmt{other}}}}
		if rapid.Bool().Draw(t, "inpsorder") {
			cases[0], cases[1] = cases[1], cases[0]
		}
		sc.Body.Stmts[i] = &Stmt{K: "ps", PS: &PSStmt{Var: "V", Cases: cases}}
	}
	return c
}

func checkC14(c *C14Case) *Violation {
	st := stat("C14")
	src := c14Src(c)
	res := CompileMaybeLM(src, Opts{Optimize: true, Switches: c.Switches})
	if res.Panic != nil || res.Budget {
		return viol("crash", "%s\n--- source\n%s", res.Describe(), src)
	}
	if c.BadMul != "" {
		if res.Err == nil {
			return viol("bad-multiplier-accepted", "multiplier %s is outside 1..9999 but the program was accepted\n--- source\n%s", c.BadMul, clip(src, 3000))
		}
		st.Eval(src, false, nil, "bad-multiplier-rejected")
		return nil
	}
	resolved, ok := Resolve(ExpandConsts(c.File), c.Switches)
	if !ok {
		if res.Err == nil {
			return viol("missing-case-accepted", "a list poryswitch has no matching case and no '_', but the program was accepted\n--- source\n%s", src)
		}
		st.Eval(src, false, nil, "no-case-rejected")
		return nil
	}
	if res.Err != nil {
		return viol("rejected", "a well-formed list program was rejected: %v\n--- source\n%s", res.Err, clip(src, 3000))
	}
	a := ParseAsm(res.Out)
	detail := func(f string, args ...any) string {
		return fmt.Sprintf(f, args...) + "\n--- source\n" + clip(src, 3000) + "--- output\n" + clip(res.Out, 3000)
	}
	bind, _ := ComputeBinding(resolved, RepoFonts(), "", 0)
	nt := false
	checkMove := func(label string, steps []*Step, wantGlobal bool, stmt bool) *Violation {
		exp := ExpandSteps(steps)
		want := EmittedSteps(exp)
		defs := a.Labels[label]
		if len(defs) != 1 {
			return viol("movement-label", "%s", detail("movement label %s defined %d times", label, len(defs)))
		}
		if stmt && a.Lines[defs[0]].Global != wantGlobal {
			return viol("movement-scope", "%s", detail("movement %s: global=%v, expected %v", label, a.Lines[defs[0]].Global, wantGlobal))
		}
		got := a.blockAfter(label)
		if len(got) != len(want) {
			return viol("movement-block", "%s", detail("movement %s has %d lines, expected %d (%s ...)", label, len(got), len(want), strings.Join(want[:min(len(want), 12)], " ")))
		}
		for i := range want {
			if got[i].Raw != "\t"+want[i] {
				return viol("movement-block", "%s", detail("movement %s line %d is %q, expected %q", label, i, got[i].Raw, "\t"+want[i]))
			}
		}
		hasMul, early := false, false
		for _, s := range steps {
			if s.Mul != "" && s.Mul != "1" {
				hasMul = true
			}
		}
		for i, s := range exp {
			if s == "step_end" && i < len(exp)-1 {
				early = true
			}
		}
		if hasMul && early {
			nt = true
		}
		return nil
	}
	for _, t := range resolved.Tops {
		switch t.K {
		case "movement":
			if v := checkMove(t.Movement.Name, t.Movement.Steps, t.Movement.Scope == "global", true); v != nil {
				return v
			}
		case "script", "mapscripts":
			body := &Block{}
			if t.K == "script" {
				body = t.Script.Body
			} else {
				for _, e := range t.Map.Entries {
					if e.Body != nil {
						body = e.Body
					}
					for _, r := range e.Rows {
						if r.Body != nil {
							body = r.Body
						}
					}
				}
			}
			for _, s := range body.Stmts {
				ar := s.Cmd.Args[1]
				lbl := bind.ArgLabel[ar]
				line := fmt.Sprintf("\t%s OBJ, %s", s.Cmd.Name, lbl)
				found := false
				for _, l := range a.Lines {
					if l.Raw == line {
						found = true
					}
				}
				if !found {
					return viol("moves-argument", "%s", detail("expected the line %q", line))
				}
				if v := checkMove(lbl, ar.Moves, false, false); v != nil {
					return v
				}
			}
		case "mart":
			m := t.Mart
			defs := a.Labels[m.Name]
			if len(defs) != 1 {
				return viol("mart-label", "%s", detail("mart label %s defined %d times", m.Name, len(defs)))
			}
			if a.Lines[defs[0]].Global != (m.Scope == "global") {
				return viol("mart-scope", "%s", detail("mart %s: global=%v", m.Name, a.Lines[defs[0]].Global))
			}
			if defs[0] == 0 || a.Lines[defs[0]-1].Raw != "\t.align 2" {
				return viol("mart-align", "%s", detail("mart %s is not preceded by .align 2", m.Name))
			}
			var want []string
			for _, it := range m.Items {
				if it.Name == "ITEM_NONE" {
					break
				}
				want = append(want, "\t.2byte "+it.Name)
			}
			want = append(want, "\t.2byte ITEM_NONE")
			got := rawLines(a.blockAfter(m.Name))
			if strings.Join(got, "\n") != strings.Join(want, "\n") {
				return viol("mart-block", "%s", detail("mart %s is\n%s\nexpected\n%s", m.Name, strings.Join(got, "\n"), strings.Join(want, "\n")))
			}
		}
	}
	st.Eval(src, nt, func() any { return clip(src, 700) })
	return nil
}

func init() { register("C14", "TestC14_Lists", checkC14, c14Src) }

func TestC14_Regress(t *testing.T) { runRegress(t, "C14") }

func TestC14_Lists(t *testing.T) {
	st := stat("C14")
	st.SetRule("movement statements, moves() arguments and marts with 0-12 entries: steps with multipliers (1,2,small, hex, 9998/9999/0x270F at most twice per file), commas, explicit step_end / ITEM_NONE anywhere, nested list poryswitch parts (colon and brace cases); 1 in 6 files gets one out-of-range multiplier (0, negative, 10000, 0x2710, huge) and must be rejected; otherwise each emitted block must be exactly the expanded steps up to the first step_end (appended once if absent) resp. .align 2 / items before the first ITEM_NONE / one ITEM_NONE. non-trivial = a multiplier > 1 together with a step_end before the end of the list; distinct by source text")
	st.Assume("decimal multipliers with a leading zero are outside the generated domain (octal or decimal reading is not specified)")
	runRapid(t, "C14", "TestC14_Lists", genC14, checkC14, c14Src)
}

// exhaustive boundary multipliers, as statement and as moves()
func TestC14_Boundaries(t *testing.T) {
	st := stat("C14")
	activateKnown("C14")
	defer flushFail("C14", "TestC14_Lists")
	good := []string{"1", "2", "9998", "9999", "0x1", "0x270F", "0x270f"}
	bad := append([]string{"foo", "*"}, badMuls...)
	n := 0
	for _, form := range []int{0, 1} {
		for _, list := range [][]string{good, bad} {
			for _, m := range list {
				n++
				c := &C14Case{File: &File{}}
				steps := []*Step{{Name: "walk_up"}, {Name: "walk_left", Mul: m}, {Name: "face_down"}}
				if form == 0 {
					c.File.Tops = append(c.File.Tops, &Top{K: "movement", Movement: &Movement{Name: "Mov0", Steps: steps}})
				} else {
					c.File.Tops = append(c.File.Tops, &Top{K: "script", Script: &Script{Name: "S", Body: &Block{Stmts: []*Stmt{sCmd(&Cmd{Name: "c0", Args: []*Arg{{Toks: []string{"OBJ"}}, {IsMv: true, Moves: steps}}})}}}})
				}
				if &list[0] == &bad[0] {
					c.BadMul = m
				}
				if !runCase(t, "C14", "TestC14_Lists", c, checkC14, c14Src) {
					t.Fail()
				}
			}
		}
	}
	st.Add("boundary_multipliers", int64(n))
	st.Done("boundary multipliers {1,2,9998,9999,0x1,0x270F} accepted and {0,-1,-9999,10000,0x2710,99999,huge,0x0,-0x1,non-numeric} rejected, as statement and as moves()", !t.Failed())
}
