package harness

import (
	"encoding/json"
	"fmt"
	"hash/fnv"
	"os"
	"path/filepath"
	"sort"
	"strconv"
	"strings"
	"sync"
	"testing"

	"pgregory.net/rapid"
)

// Violation is what an oracle returns when a property clause does not hold.
// Clause is a short, deterministic name of the clause (it is the shrinking
// key); Detail explains the concrete failure.
type Violation struct {
	Clause string
	Detail string
}

func viol(clause, format string, args ...any) *Violation {
	return &Violation{Clause: clause, Detail: fmt.Sprintf(format, args...)}
}

var verifRoot = envOr("VERIF_ROOT", "/verif")

func envOr(k, d string) string {
	if v := os.Getenv(k); v != "" {
		return v
	}
	return d
}

func envInt(k string, d int) int {
	if v := os.Getenv(k); v != "" {
		if n, err := strconv.Atoi(v); err == nil {
			return n
		}
	}
	return d
}

func tier() string   { return envOr("VERIF_TIER", "quick") }
func thorough() bool { return tier() == "thorough" }

// pick returns q in the quick tier and th in the thorough tier.
func pick(q, th int) int {
	if thorough() {
		return th
	}
	return q
}

func verifSeed() int  { return envInt("VERIF_SEED", 1) }
func shardIdx() int   { return envInt("VERIF_SHARD", 0) }
func shardCount() int { return envInt("VERIF_NSHARDS", 1) }

// ---------- statistics / evidence ----------

type Stats struct {
	mu          sync.Mutex
	ID          string            `json:"id"`
	Evals       int64             `json:"evals"`
	NT          map[uint64]bool   `json:"-"`
	NTList      []uint64          `json:"nt"`
	Labels      map[string]int64  `json:"labels"`
	Samples     []any             `json:"samples"`
	Rule        string            `json:"rule"`
	Assumptions []string          `json:"assumptions"`
	Exhaustive  map[string]bool   `json:"exhaustive"` // named enumerations completed
	Extra       map[string]int64  `json:"extra"`
	Notes       map[string]string `json:"notes"`
}

var statsMu sync.Mutex
var statsReg = map[string]*Stats{}

func stat(id string) *Stats {
	statsMu.Lock()
	defer statsMu.Unlock()
	s := statsReg[id]
	if s == nil {
		s = &Stats{ID: id, NT: map[uint64]bool{}, Labels: map[string]int64{}, Exhaustive: map[string]bool{}, Extra: map[string]int64{}, Notes: map[string]string{}}
		statsReg[id] = s
	}
	return s
}

func hash64(s string) uint64 {
	h := fnv.New64a()
	h.Write([]byte(s))
	return h.Sum64()
}

const maxNT = 400000

// Eval counts one evaluated case. key identifies the case (for distinctness),
// nontrivial says whether it satisfies the property's non-triviality rule,
// sample (may be nil) produces a printable form kept for the evidence file.
func (s *Stats) Eval(key string, nontrivial bool, sample func() any, labels ...string) {
	s.mu.Lock()
	defer s.mu.Unlock()
	s.Evals++
	for _, l := range labels {
		s.Labels[l]++
	}
	if nontrivial {
		s.Labels["nontrivial"]++
		h := hash64(key)
		if !s.NT[h] && len(s.NT) < maxNT {
			s.NT[h] = true
			if sample != nil && len(s.Samples) < 4 {
				s.Samples = append(s.Samples, sample())
			}
		}
	}
}

func (s *Stats) Label(l string)           { s.mu.Lock(); s.Labels[l]++; s.mu.Unlock() }
func (s *Stats) Add(k string, n int64)    { s.mu.Lock(); s.Extra[k] += n; s.mu.Unlock() }
func (s *Stats) SetRule(r string)         { s.mu.Lock(); s.Rule = r; s.mu.Unlock() }
func (s *Stats) Note(k, v string)         { s.mu.Lock(); s.Notes[k] = v; s.mu.Unlock() }
func (s *Stats) Done(enum string, b bool) { s.mu.Lock(); s.Exhaustive[enum] = b; s.mu.Unlock() }
func (s *Stats) Assume(a ...string) {
	s.mu.Lock()
	defer s.mu.Unlock()
	for _, x := range a {
		dup := false
		for _, y := range s.Assumptions {
			if x == y {
				dup = true
			}
		}
		if !dup {
			s.Assumptions = append(s.Assumptions, x)
		}
	}
}

func flushStats() {
	out := os.Getenv("VERIF_SHARD_OUT")
	if out == "" {
		return
	}
	statsMu.Lock()
	defer statsMu.Unlock()
	var all []*Stats
	var ids []string
	for id := range statsReg {
		ids = append(ids, id)
	}
	sort.Strings(ids)
	for _, id := range ids {
		s := statsReg[id]
		s.NTList = s.NTList[:0]
		for h := range s.NT {
			s.NTList = append(s.NTList, h)
		}
		sort.Slice(s.NTList, func(i, j int) bool { return s.NTList[i] < s.NTList[j] })
		all = append(all, s)
	}
	b, _ := json.Marshal(all)
	os.WriteFile(out, b, 0o644)
}

func clip(s string, n int) string {
	if len(s) <= n {
		return s
	}
	return s[:n] + "…"
}

// ---------- check registry, violations, replay ----------

type checkDef struct {
	ID     string
	Name   string
	Replay func(raw json.RawMessage) (*Violation, string, error) // violation, source text, decode error
}

var checks = map[string]*checkDef{}

// register makes a case type + oracle replayable under the test name.
func register[C any](id, name string, check func(*C) *Violation, src func(*C) string) {
	checks[name] = &checkDef{ID: id, Name: name, Replay: func(raw json.RawMessage) (*Violation, string, error) {
		var c C
		if err := json.Unmarshal(raw, &c); err != nil {
			return nil, "", err
		}
		return check(&c), src(&c), nil
	}}
}

// ReplayFile is the format of replay, regression and known-finding cases.
type ReplayFile struct {
	Property string          `json:"property"`
	Test     string          `json:"test"`
	Clause   string          `json:"clause,omitempty"`
	Detail   string          `json:"detail,omitempty"`
	What     string          `json:"what,omitempty"`
	Src      string          `json:"src,omitempty"`
	Seed     string          `json:"seed,omitempty"`
	Case     json.RawMessage `json:"case"`
}

type failRec struct {
	v    *Violation
	c    any
	src  string
	size int
}

var failMu sync.Mutex
var failBest = map[string]*failRec{}

func recordFail(name string, v *Violation, c any, src string) {
	failMu.Lock()
	defer failMu.Unlock()
	b := failBest[name]
	if b == nil || len(src) < b.size || (len(src) == b.size && v.Clause < b.v.Clause) {
		failBest[name] = &failRec{v: v, c: c, src: src, size: len(src)}
	}
}

var outMu sync.Mutex

func say(format string, args ...any) {
	outMu.Lock()
	defer outMu.Unlock()
	fmt.Fprintf(os.Stdout, format+"\n", args...)
	os.Stdout.Sync()
}

// flushFail writes the replay file for the smallest recorded failure of the
// test (if any) and prints the VIOLATION line.
func flushFail(id, name string) bool {
	failMu.Lock()
	b := failBest[name]
	delete(failBest, name)
	failMu.Unlock()
	if b == nil {
		return false
	}
	raw, err := json.Marshal(b.c)
	if err != nil {
		raw = []byte(`null`)
	}
	rf := ReplayFile{Property: id, Test: name, Clause: b.v.Clause, Detail: b.v.Detail, Src: b.src, Seed: os.Getenv("VERIF_RAPID_SEED"), Case: raw}
	dir := filepath.Join(verifRoot, "replays", id)
	os.MkdirAll(dir, 0o755)
	path := filepath.Join(dir, fmt.Sprintf("%s-%016x.json", name, hash64(string(raw))))
	data, _ := json.MarshalIndent(rf, "", " ")
	os.WriteFile(path, data, 0o644)
	say("VIOLATION property=%s replay=%s", id, path)
	say("  clause: %s", b.v.Clause)
	for _, l := range strings.Split(clip(b.v.Detail, 6000), "\n") {
		say("  | %s", l)
	}
	return true
}

// ---------- known findings ----------

type knownFinding struct {
	Property string          `json:"property"`
	Test     string          `json:"test"`
	Key      string          `json:"key"`  // exclusion key understood by the generators
	What     string          `json:"what"` // one-line description printed in the KNOWN-FINDING line
	Src      string          `json:"src,omitempty"`
	Case     json.RawMessage `json:"case"`
}

type knownFile struct {
	Findings []knownFinding `json:"findings"`
	Fixed    []string       `json:"fixed"`
}

var knownOnce sync.Once
var known knownFile
var exclMu sync.Mutex
var excl = map[string]bool{}

func loadKnown() {
	knownOnce.Do(func() {
		b, err := os.ReadFile(filepath.Join(verifRoot, "known_findings.json"))
		if err != nil {
			return
		}
		if err := json.Unmarshal(b, &known); err != nil {
			panic("known_findings.json: " + err.Error())
		}
	})
}

// activateKnown replays the listed findings of a property. A finding that
// still fails is announced and its shape excluded from generation; a finding
// that no longer fails is silently dropped (its shape is generated again).
func activateKnown(id string) {
	loadKnown()
	for _, k := range known.Findings {
		if k.Property != id {
			continue
		}
		cd := checks[k.Test]
		if cd == nil {
			continue
		}
		v, _, err := cd.Replay(k.Case)
		if err != nil {
			panic("known finding " + k.Key + ": " + err.Error())
		}
		exclMu.Lock()
		already := excl[id+"/"+k.Key]
		if v != nil {
			excl[id+"/"+k.Key] = true
		}
		exclMu.Unlock()
		if v != nil && !already {
			say("KNOWN-FINDING: property=%s %s", id, k.What)
		}
	}
}

// excluded reports whether the generators of property id must avoid the shape.
func excluded(id, key string) bool {
	exclMu.Lock()
	defer exclMu.Unlock()
	return excl[id+"/"+key]
}

// ---------- running ----------

// runRapid drives a generated-input check: gen draws a case, check is the oracle.
func runRapid[C any](t *testing.T, id, name string, gen func(*rapid.T) *C, check func(*C) *Violation, src func(*C) string) {
	t.Helper()
	activateKnown(id)
	defer func() {
		flushFail(id, name)
	}()
	rapid.Check(t, func(rt *rapid.T) {
		c := gen(rt)
		if v := check(c); v != nil {
			recordFail(name, v, c, src(c))
			rt.Fatalf("%s", v.Clause)
		}
	})
}

// runCases drives an enumerated (non-rapid) check over explicit cases.
func runCase[C any](t *testing.T, id, name string, c *C, check func(*C) *Violation, src func(*C) string) bool {
	if v := check(c); v != nil {
		recordFail(name, v, c, src(c))
		return false
	}
	return true
}

// runRegress replays every saved case of the property's regress directory.
func runRegress(t *testing.T, id string) {
	activateKnown(id)
	dir := filepath.Join(verifRoot, "regress", id)
	files, _ := filepath.Glob(filepath.Join(dir, "*.json"))
	sort.Strings(files)
	n := 0
	for _, f := range files {
		b, err := os.ReadFile(f)
		if err != nil {
			t.Fatalf("regress %s: %v", f, err)
		}
		var rf ReplayFile
		if err := json.Unmarshal(b, &rf); err != nil {
			t.Fatalf("regress %s: %v", f, err)
		}
		cd := checks[rf.Test]
		if cd == nil {
			t.Fatalf("regress %s: unknown test %q", f, rf.Test)
		}
		v, src, err := cd.Replay(rf.Case)
		if err != nil {
			t.Fatalf("regress %s: %v", f, err)
		}
		n++
		stat(id).Add("regress_cases", 1)
		if v != nil {
			say("VIOLATION property=%s replay=%s", id, f)
			say("  clause: %s", v.Clause)
			for _, l := range strings.Split(clip(v.Detail, 6000), "\n") {
				say("  | %s", l)
			}
			_ = src
			t.Errorf("regression case %s fails: %s", filepath.Base(f), v.Clause)
		}
	}
	t.Logf("%d regression cases replayed", n)
}
