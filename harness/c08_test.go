package harness

import (
	"fmt"
	"strings"
	"testing"

	"pgregory.net/rapid"
)

// C08: mapscripts emit complete, ordered, terminated tables whose entries resolve.

var c08VarToks = [][]string{{"VAR_TEMP_0"}, {"VAR_TEMP_1"}, {"VAR_BASE", "+", "1"}, {"(", "VAR_X", ")"}, {"VAR_LITTLEROOT_STATE"}, {"0x4001"}}
var c08ValToks = [][]string{{"0"}, {"1"}, {"STATE_A"}, {"BASE", "+", "2"}, {"(", "3", ")"}, {"-1"}, {"0x10"}}

func genC08(t *rapid.T) *FileCase {
	cf := DefaultCF()
	cf.MaxDepth = 3
	cf.TopStmts = 4
	cf.InlineText = true
	cf.PS = 8
	cf.PSNoDirectContinue = true
	cf.PSNestedFallback = true
	cf.PSAlwaysFallback = true
	fcfg := DefaultFileCfg()
	fcfg.CF = cf
	fg := &fileGen{t: t, cfg: fcfg}
	f := &File{}
	nCmd := 0
	var allLabels []string
	var allGotos []*Cmd
	body := func(prefix string) *Block {
		cg := &genCtx{t: t, cfg: cf, prefix: prefix + "_", nCmd: &nCmd}
		b := cg.block(0, false, false, cf.TopStmts, true)
		fg.decorate(b)
		allLabels = append(allLabels, cg.labels...)
		allGotos = append(allGotos, cg.gotos...)
		return b
	}
	nmaps := rapid.IntRange(1, 2).Draw(t, "nmaps")
	for mi := 0; mi < nmaps; mi++ {
		name := fmt.Sprintf("Map%c", 'A'+mi)
		ms := &MapScripts{Name: name}
		if rapid.IntRange(0, 2).Draw(t, "scoped") == 0 {
			ms.Scope = rapid.SampledFrom([]string{"global", "local"}).Draw(t, "scope")
		}
		types := rapid.Permutation(mapTypes).Draw(t, "mstypes")
		ne := rapid.IntRange(0, 6).Draw(t, "nentries")
		for e := 0; e < ne; e++ {
			en := &MSEntry{Type: types[e]}
			switch rapid.IntRange(0, 2).Draw(t, "entrykind") {
			case 0:
				en.Kind = "plain"
				en.Label = fmt.Sprintf("%s_Handler%c", name, 'A'+e)
				// the same map script type may be given twice (two handlers, or a handler next to an inline
				// script): the header lists every entry
				var earlier []string
				for _, pe := range ms.Entries {
					if pe.Kind != "table" {
						earlier = append(earlier, pe.Type)
					}
				}
				if len(earlier) > 0 && rapid.IntRange(0, 3).Draw(t, "sametype") == 0 {
					en.Type = earlier[rapid.IntRange(0, len(earlier)-1).Draw(t, "sametypeof")]
				}
			case 1:
				en.Kind = "inline"
				en.Body = body(name + "_" + en.Type)
			default:
				en.Kind = "table"
				nr := rapid.IntRange(0, 5).Draw(t, "nrows")
				if rapid.IntRange(0, 7).Draw(t, "longtable") == 0 {
					nr = rapid.IntRange(10, 13).Draw(t, "nrowslong") // inline rows with two-digit indices
				}
				for r := 0; r < nr; r++ {
					row := &MSRow{Var: rapid.SampledFrom(c08VarToks).Draw(t, "rowvar"), Val: rapid.SampledFrom(c08ValToks).Draw(t, "rowval")}
					if rapid.Bool().Draw(t, "rowinline") {
						row.Body = body(fmt.Sprintf("%s_%s_%d", name, en.Type, r))
					} else {
						row.Label = fmt.Sprintf("%s_Row%cx%c", name, 'A'+e, 'A'+r)
					}
					en.Rows = append(en.Rows, row)
				}
			}
			ms.Entries = append(ms.Entries, en)
		}
		// a ':' entry or row may name the generated label of an inline script of the same statement
		// (the same script for two map script types), before or after the entry that owns it
		{
			var owned []string
			for _, e := range ms.Entries {
				if e.Kind == "inline" {
					owned = append(owned, name+"_"+e.Type)
				}
				for i, r := range e.Rows {
					if r.Body != nil {
						owned = append(owned, fmt.Sprintf("%s_%s_%d", name, e.Type, i))
					}
				}
			}
			if len(owned) > 0 {
				for _, e := range ms.Entries {
					if e.Kind == "plain" && rapid.IntRange(0, 3).Draw(t, "reuse") == 0 {
						e.Label = owned[rapid.IntRange(0, len(owned)-1).Draw(t, "reusewhich")]
					}
					for _, r := range e.Rows {
						if r.Body == nil && rapid.IntRange(0, 3).Draw(t, "reuse") == 0 {
							r.Label = owned[rapid.IntRange(0, len(owned)-1).Draw(t, "reusewhich")]
						}
					}
				}
			}
		}
		f.Tops = append(f.Tops, &Top{K: "mapscripts", Map: ms})
		if rapid.IntRange(0, 2).Draw(t, "extrascript") == 0 {
			sn := fmt.Sprintf("Scr%c", 'A'+mi)
			f.Tops = append(f.Tops, &Top{K: "script", Script: &Script{Name: sn, Body: body(sn)}})
			allLabels = append(allLabels, sn)
		}
	}
	resolveGotos(allGotos, allLabels)
	// a constant named like the script label of a ':' entry or ':' row: labels are never substituted,
	// table vars and values are
	if rapid.IntRange(0, 2).Draw(t, "labelconst") == 0 {
		var lbls []string
		for _, tp := range f.Tops {
			if tp.K == "mapscripts" {
				for _, e := range tp.Map.Entries {
					if e.Kind == "plain" {
						lbls = append(lbls, e.Label)
					}
					for _, r := range e.Rows {
						if r.Body == nil {
							lbls = append(lbls, r.Label)
						}
					}
				}
			}
		}
		if len(lbls) > 0 {
			f.Tops = append([]*Top{{K: "const", Const: &Const{Name: lbls[rapid.IntRange(0, len(lbls)-1).Draw(t, "whichlabel")], Val: []string{"99"}}}}, f.Tops...)
		}
		f.Tops = append([]*Top{{K: "const", Const: &Const{Name: "STATE_A", Val: []string{"4", "+", "1"}}}, {K: "const", Const: &Const{Name: "VAR_TEMP_1", Val: []string{"VAR_OTHER"}}}}, f.Tops...)
	}
	c := &FileCase{File: f, Switches: map[string]string{"V": rapid.SampledFrom([]string{"A", "B", "zz"}).Draw(t, "v"), "W": rapid.SampledFrom([]string{"A", "1", "q"}).Draw(t, "w")}}
	base := rapid.Uint64Range(1, 1<<40).Draw(t, "world")
	for i := 0; i < pick(6, 16); i++ {
		c.Worlds = append(c.Worlds, base+uint64(i))
	}
	return c
}

// scriptBlock returns the raw lines of a script's block: from its entry label up to the next top-level block.
func scriptBlock(a *Asm, name string, m *modelNames) []string {
	defs := a.Labels[name]
	if len(defs) == 0 {
		return nil
	}
	var out []string
	for i := defs[0]; i < len(a.Lines); i++ {
		l := a.Lines[i]
		if i > defs[0] && l.Label != "" && (m.topLevel[l.Label] || isHoistedLabel(l.Label)) {
			break
		}
		if i > defs[0] && l.Op == ".align" {
			break
		}
		out = append(out, l.Raw)
	}
	return out
}

func checkC08(c *FileCase) *Violation {
	st := stat("C08")
	src := fileCaseSrc(c)
	resolved, ok := Resolve(c.File, c.Switches)
	if !ok {
		st.Label("no-case")
		return nil
	}
	resolved = ExpandConsts(resolved)
	// the twin: every inline body written as a script(local) statement of the same name, in the same order
	twin := &File{}
	for _, t := range resolved.Tops {
		if t.K != "mapscripts" {
			twin.Tops = append(twin.Tops, t)
			continue
		}
		for _, e := range t.Map.Entries {
			if e.Kind == "inline" {
				twin.Tops = append(twin.Tops, &Top{K: "script", Script: &Script{Name: t.Map.Name + "_" + e.Type, Scope: "local", Body: e.Body}})
			}
			for i, r := range e.Rows {
				if r.Body != nil {
					twin.Tops = append(twin.Tops, &Top{K: "script", Script: &Script{Name: fmt.Sprintf("%s_%s_%d", t.Map.Name, e.Type, i), Scope: "local", Body: r.Body}})
				}
			}
		}
	}
	tsrc := Canon(twin)
	m := collectNames(resolved)
	tables, controlFlow := false, false
	for _, opt := range []bool{false, true} {
		o := c.opts(opt)
		res := CompileMaybeLM(src, o)
		if res.Panic != nil || res.Budget {
			return viol("crash", "%s\n--- source\n%s", res.Describe(), src)
		}
		if res.Err != nil {
			st.Label("rejected")
			st.Note("last_rejection", clip(res.Err.Error()+"\n"+src, 800))
			return nil
		}
		a := ParseAsm(res.Out)
		detail := func(f string, args ...any) string {
			return fmt.Sprintf("opt=%v ", opt) + fmt.Sprintf(f, args...) + "\n--- source\n" + src + "--- output\n" + res.Out
		}
		for _, t := range resolved.Tops {
			if t.K != "mapscripts" {
				continue
			}
			ms := t.Map
			defs := a.Labels[ms.Name]
			if len(defs) != 1 {
				return viol("header-label", "%s", detail("mapscripts %s defined %d times", ms.Name, len(defs)))
			}
			wantGlobal := ms.Scope != "local"
			if a.Lines[defs[0]].Global != wantGlobal {
				return viol("header-scope", "%s", detail("mapscripts %s: global=%v, expected %v", ms.Name, a.Lines[defs[0]].Global, wantGlobal))
			}
			var want []string
			for _, e := range ms.Entries {
				switch e.Kind {
				case "plain":
					want = append(want, fmt.Sprintf("\tmap_script %s, %s", e.Type, e.Label))
				case "inline":
					want = append(want, fmt.Sprintf("\tmap_script %s, %s_%s", e.Type, ms.Name, e.Type))
				}
			}
			for _, e := range ms.Entries {
				if e.Kind == "table" {
					want = append(want, fmt.Sprintf("\tmap_script %s, %s_%s", e.Type, ms.Name, e.Type))
				}
			}
			want = append(want, "\t.byte 0")
			got := rawLines(a.blockAfter(ms.Name))
			if strings.Join(got, "\n") != strings.Join(want, "\n") {
				return viol("header", "%s", detail("header of %s is\n%s\nexpected\n%s", ms.Name, strings.Join(got, "\n"), strings.Join(want, "\n")))
			}
			for _, e := range ms.Entries {
				if e.Kind != "table" {
					continue
				}
				tn := ms.Name + "_" + e.Type
				td := a.Labels[tn]
				if len(td) != 1 || a.Lines[td[0]].Global {
					return viol("table-label", "%s", detail("table %s: defined %d times / exported", tn, len(td)))
				}
				var tw []string
				inlineRows, labelRows := 0, 0
				for i, r := range e.Rows {
					target := r.Label
					if r.Body != nil {
						target = fmt.Sprintf("%s_%d", tn, i)
						inlineRows++
					} else {
						labelRows++
					}
					tw = append(tw, fmt.Sprintf("\tmap_script_2 %s, %s, %s", joinToks(r.Var), joinToks(r.Val), target))
				}
				tw = append(tw, "\t.2byte 0")
				tg := rawLines(a.blockAfter(tn))
				if strings.Join(tg, "\n") != strings.Join(tw, "\n") {
					return viol("table", "%s", detail("table %s is\n%s\nexpected\n%s", tn, strings.Join(tg, "\n"), strings.Join(tw, "\n")))
				}
				if len(e.Rows) >= 2 && inlineRows > 0 && labelRows > 0 {
					tables = true
				}
			}
		}
		// every inline script once, local
		names, blocks := EntryBlocks(resolved)
		scripts := map[string]bool{}
		for _, sc := range resolved.Scripts() {
			scripts[sc.Name] = true
		}
		for _, n := range names {
			if scripts[n] {
				continue
			}
			d := a.Labels[n]
			if len(d) != 1 {
				return viol("inline-script-count", "%s", detail("inline script %s is defined %d times", n, len(d)))
			}
			if a.Lines[d[0]].Global {
				return viol("inline-script-scope", "%s", detail("inline script %s is exported", n))
			}
			if yes, _ := hasLoopOrSwitch(blocks[n]); yes {
				controlFlow = true
			}
		}
		// behaviour: reference vs assembly from every entry
		if v, _ := diffExec(resolved, c.Auto, res.Out, c.worlds(), fmt.Sprintf("opt=%v", opt)); v != nil {
			v.Clause = "inline-script-behaviour"
			v.Detail += "\n--- source\n" + src
			return v
		}
		// ... and the same code as the body written as a script statement
		rt := Compile(tsrc, o)
		if !rt.OK() {
			return viol("twin-rejected", "%s", detail("the inline bodies written as script(local) statements: %s\n--- twin\n%s", rt.Describe(), tsrc))
		}
		at := ParseAsm(rt.Out)
		mt := collectNames(twin)
		for _, n := range names {
			if scripts[n] {
				continue
			}
			b1 := strings.Join(scriptBlock(a, n, m), "\n")
			b2 := strings.Join(scriptBlock(at, n, mt), "\n")
			if b1 != b2 {
				return viol("inline-differs-from-script", "%s", detail("inline script %s is emitted as\n%s\nbut as a script(local) statement it is\n%s\n--- twin source\n%s", n, b1, b2, tsrc))
			}
		}
	}
	st.Eval(src, tables && controlFlow, func() any { return clip(src, 1500) })
	return nil
}

func init() { register("C08", "TestC08_MapScripts", checkC08, fileCaseSrc) }

func TestC08_Regress(t *testing.T) { runRegress(t, "C08") }

func TestC08_MapScripts(t *testing.T) {
	st := stat("C08")
	st.SetRule("1-2 mapscripts statements (with and without scope modifier) of 0-6 entries in any order and mix: TYPE: Label, TYPE { body }, TYPE [ 0-5 rows of var, value: Label | var, value { body } ] with multi-token vars and values, constants in vars / values and constants named like entry labels; bodies from the control-flow grammar with inline text/moves() and statement poryswitch; map script types distinct per statement except that a ':' entry may repeat the type of an earlier ':' or inline entry. oracle: header label and scope, map_script lines (plain/inline in source order, then tables in source order), .byte 0; each table local with its map_script_2 rows in source order and .2byte 0; each inline script defined once and local; inline bodies executed against the reference under hashed worlds; and their emitted block must be textually identical to the block of the same body compiled as script(local) <same name>; optimize off and on. non-trivial = a table with >= 2 rows mixing label and inline rows AND an inline script with a loop or switch; distinct by source text")
	st.Assume("inline entries and tables of one mapscripts statement have distinct map script types (their generated labels are derived from the type)")
	runRapid(t, "C08", "TestC08_MapScripts", genC08, checkC08, fileCaseSrc)
}
