package harness

import (
	"fmt"
	"strings"
	"testing"

	"pgregory.net/rapid"
)

// C12: poryswitch contributes exactly the selected case and nothing else.

func c12Src(c *FileCase) string { return CanonMaybeDense(c.File) }

func hasDirectContinueInPS(f *File) bool {
	found := false
	_, blocks := EntryBlocks(f)
	for _, b := range blocks {
		walkBlocks(b, func(bb *Block) {
			for _, s := range bb.Stmts {
				if s.K == "ps" {
					for _, c := range s.PS.Cases {
						for _, x := range c.Body.Stmts {
							if x.K == "continue" {
								found = true
							}
						}
					}
				}
			}
		})
	}
	return found
}

func psStats(f *File, sw map[string]string) (n int, notFirst, fallback, nested bool) {
	var stmtPS func(ps *PSStmt, depth int)
	noteKeys := func(v string, keys []string, depth int) {
		n++
		if depth > 0 {
			nested = true
		}
		i := selectKey(keys, sw[v])
		if i > 0 {
			notFirst = true
		}
		if i >= 0 && keys[i] == "_" {
			fallback = true
		}
	}
	var listPS func(ps *PSList, depth int)
	listPS = func(ps *PSList, depth int) {
		keys := make([]string, len(ps.Cases))
		for i, c := range ps.Cases {
			keys[i] = c.Key
		}
		noteKeys(ps.Var, keys, depth)
		for _, c := range ps.Cases {
			for _, s := range c.Steps {
				if s.PS != nil {
					listPS(s.PS, depth+1)
				}
			}
			for _, s := range c.Items {
				if s.PS != nil {
					listPS(s.PS, depth+1)
				}
			}
		}
	}
	var blockPS func(b *Block, depth int)
	stmtPS = func(ps *PSStmt, depth int) {
		keys := make([]string, len(ps.Cases))
		for i, c := range ps.Cases {
			keys[i] = c.Key
		}
		noteKeys(ps.Var, keys, depth)
		for _, c := range ps.Cases {
			blockPS(c.Body, depth+1)
		}
	}
	blockPS = func(b *Block, depth int) {
		if b == nil {
			return
		}
		for _, s := range b.Stmts {
			switch s.K {
			case "ps":
				stmtPS(s.PS, depth)
			case "if":
				for _, a := range s.If.Arms {
					blockPS(a.Body, depth)
				}
				blockPS(s.If.Else, depth)
			case "while":
				blockPS(s.While.Body, depth)
			case "dowhile":
				blockPS(s.Do.Body, depth)
			case "switch":
				for _, c := range s.Switch.Cases {
					blockPS(c.Body, depth)
				}
			case "cmd":
				for _, a := range s.Cmd.Args {
					for _, st := range a.Moves {
						if st.PS != nil {
							listPS(st.PS, depth)
						}
					}
				}
			}
		}
	}
	_, blocks := EntryBlocks(f)
	for _, b := range blocks {
		blockPS(b, 0)
	}
	for _, t := range f.Tops {
		switch t.K {
		case "text":
			if t.Text.PS != nil {
				keys := make([]string, len(t.Text.PS.Cases))
				for i, c := range t.Text.PS.Cases {
					keys[i] = c.Key
				}
				noteKeys(t.Text.PS.Var, keys, 0)
			}
		case "movement":
			for _, s := range t.Movement.Steps {
				if s.PS != nil {
					listPS(s.PS, 0)
				}
			}
		case "mart":
			for _, s := range t.Mart.Items {
				if s.PS != nil {
					listPS(s.PS, 0)
				}
			}
		}
	}
	return
}

func checkC12(c *FileCase) *Violation {
	st := stat("C12")
	src := c12Src(c)
	resolved, ok := Resolve(c.File, c.Switches)
	rsrc := Canon(resolved)
	for _, opt := range []bool{true, false} {
		o := Opts{Optimize: opt, FontPath: "@repo", Switches: c.Switches, Auto: c16Auto}
		r1 := Compile(src, o)
		if r1.Panic != nil || r1.Budget {
			return viol("crash", "%s\n--- source\n%s", r1.Describe(), src)
		}
		if !ok {
			if r1.Err == nil {
				return viol("missing-case-accepted", "a poryswitch has no matching case and no '_' for %v, but the program was accepted\n--- source\n%s--- output\n%s", c.Switches, src, r1.Out)
			}
			st.Eval(src, false, nil, "no-case-rejected")
			return nil
		}
		r2 := Compile(rsrc, o)
		if r2.Panic != nil || r2.Budget {
			return viol("crash", "%s\n--- source\n%s", r2.Describe(), rsrc)
		}
		if (r1.Err == nil) != (r2.Err == nil) {
			return viol("acceptance-differs", "switches %v opt=%v: program with poryswitch: %s; same program with the selected cases written out: %s\n--- source\n%s--- resolved\n%s", c.Switches, opt, r1.Describe(), r2.Describe(), src, rsrc)
		}
		if r1.Err != nil {
			st.Label("both-rejected")
			st.Note("last_rejection", clip(r1.Err.Error()+"\n"+src, 800))
			return nil
		}
		if r1.Out != r2.Out {
			return viol("output-differs", "switches %v opt=%v: the output differs from the output of the program with the selected cases written out\n--- source\n%s--- resolved\n%s--- output\n%s--- output of resolved\n%s", c.Switches, opt, src, rsrc, r1.Out, r2.Out)
		}
	}
	n, notFirst, fallback, nested := psStats(c.File, c.Switches)
	var lbl []string
	if notFirst {
		lbl = append(lbl, "selected-not-first")
	}
	if fallback {
		lbl = append(lbl, "fallback-used")
	}
	if nested {
		lbl = append(lbl, "nested")
	}
	st.Eval(src+fmt.Sprint(c.Switches), n > 0 && (notFirst || fallback || nested), func() any { return map[string]any{"switches": c.Switches, "src": clip(src, 1200)} }, lbl...)
	return nil
}

func genC12(t *rapid.T) *FileCase {
	cfg := DefaultFileCfg()
	cfg.CF.MaxDepth = 3
	cfg.CF.PS = 5
	cfg.CF.Auto = c16Auto
	cfg.CF.AutoP = 5
	cfg.CF.PSNoDirectContinue = excluded("C12", "continue-direct-in-poryswitch-case")
	cfg.CF.PSNestedFallback = excluded("C12", "nested-poryswitch-without-match-in-unselected-case")
	cfg.MaxTops = 4
	cfg.Raws = false
	f := GenFile(t, cfg)
	// text / movement / mart poryswitches
	lg := &c14gen{t: t, big: 0}
	lg.nestedFallback = cfg.CF.PSNestedFallback
	for _, tp := range f.Tops {
		switch tp.K {
		case "text":
			if rapid.IntRange(0, 1).Draw(t, "textps") == 0 {
				ps := &PSText{Var: rapid.SampledFrom([]string{"V", "W"}).Draw(t, "psvar")}
				keys := rapid.Permutation(psKeys).Draw(t, "pskeys")
				fg := &fileGen{t: t, cfg: cfg}
				for _, k := range keys[:rapid.IntRange(1, 4).Draw(t, "npskeys")] {
					ps.Cases = append(ps.Cases, &PSTextCase{Key: k, Brace: rapid.Bool().Draw(t, "brace"), Val: fg.textVal()})
				}
				tp.Text.PS, tp.Text.Val = ps, nil
			}
		case "movement":
			tp.Movement.Steps = lg.steps(6, true)
		case "mart":
			tp.Mart.Items = lg.items(5)
		}
	}
	// moves() arguments with poryswitch parts
	_, blocks := EntryBlocks(f)
	names, _ := EntryBlocks(f)
	for _, n := range names {
		walkCmdsOrdered(blocks[n], func(cmd *Cmd) {
			for _, a := range cmd.Args {
				if a.IsMv && rapid.IntRange(0, 1).Draw(t, "movesps") == 0 {
					// the command may sit inside a statement poryswitch case: treat its list poryswitches as nested
					lg.depth = 1
					a.Moves = lg.steps(4, true)
					lg.depth = 0
				}
			}
		})
	}
	// constants named like poryswitch case keys: keys are never substituted
	if rapid.IntRange(0, 3).Draw(t, "keyconst") == 0 {
		f.Tops = append([]*Top{{K: "const", Const: &Const{Name: rapid.SampledFrom([]string{"A", "B"}).Draw(t, "keyconstname"), Val: []string{rapid.SampledFrom([]string{"zz", "B", "A", "1"}).Draw(t, "keyconstval")}}}}, f.Tops...)
	}
	c := &FileCase{File: f, Switches: map[string]string{}}
	for _, v := range []string{"V", "W"} {
		c.Switches[v] = rapid.SampledFrom([]string{"A", "B", "1", "zz", "_x", "", "A ", " B", " 1 ", "0x2", "2"}).Draw(t, "sw"+v)
	}
	return c
}

func init() { register("C12", "TestC12_Poryswitch", checkC12, c12Src) }

func TestC12_Regress(t *testing.T) { runRegress(t, "C12") }

func TestC12_Poryswitch(t *testing.T) {
	st := stat("C12")
	st.SetRule("whole files with poryswitch in all four positions (statements incl. inside control flow and inline map scripts; text incl. typed and format(); movement, moves() and mart lists), 1-4 cases in any order, identifier and integer keys, '_' present or not, colon and brace forms, nesting up to 2, unselected cases containing inline texts, labels, loops; two switch variables with values matching a case, only '_', or nothing. oracle: byte-identical output and same acceptance as the program in which the harness wrote out the selected cases (optimize on and off); no match and no '_' => rejected. non-trivial = the selected case is not the first, or the fallback is used, or a nested poryswitch; distinct by (source, switches)")
	st.Assume("the resolver selects the case whose key equals the -s value, else '_'; keys are not repeated inside one poryswitch")
	runRapid(t, "C12", "TestC12_Poryswitch", genC12, checkC12, c12Src)
}

var _ = strings.Join
