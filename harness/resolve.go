package harness

// Poryswitch resolution on the model: every poryswitch is replaced by the
// content of the case that matches the switch value, or of '_' when none
// matches. ok=false when some poryswitch has neither.

func selectKey(keys []string, val string) int {
	// later cases with the same key overwrite earlier ones in the compiler's maps;
	// the generators never repeat a key inside one poryswitch.
	for i, k := range keys {
		if k == val {
			return i
		}
	}
	for i, k := range keys {
		if k == "_" {
			return i
		}
	}
	return -1
}

func ResolveText(ps *PSText, sw map[string]string) (*TextVal, bool) {
	keys := make([]string, len(ps.Cases))
	for i, c := range ps.Cases {
		keys[i] = c.Key
	}
	i := selectKey(keys, sw[ps.Var])
	if i < 0 {
		return nil, false
	}
	return ps.Cases[i].Val, true
}

func resolveSteps(steps []*Step, sw map[string]string, ok *bool) []*Step {
	var out []*Step
	for _, s := range steps {
		if s.PS == nil {
			out = append(out, &Step{Name: s.Name, Mul: s.Mul, Comma: s.Comma})
			continue
		}
		keys := make([]string, len(s.PS.Cases))
		for i, c := range s.PS.Cases {
			keys[i] = c.Key
		}
		i := selectKey(keys, sw[s.PS.Var])
		if i < 0 {
			*ok = false
			continue
		}
		out = append(out, resolveSteps(s.PS.Cases[i].Steps, sw, ok)...)
	}
	if out == nil {
		out = []*Step{}
	}
	return out
}

func resolveItems(items []*Item, sw map[string]string, ok *bool) []*Item {
	var out []*Item
	for _, s := range items {
		if s.PS == nil {
			out = append(out, &Item{Name: s.Name})
			continue
		}
		keys := make([]string, len(s.PS.Cases))
		for i, c := range s.PS.Cases {
			keys[i] = c.Key
		}
		i := selectKey(keys, sw[s.PS.Var])
		if i < 0 {
			*ok = false
			continue
		}
		out = append(out, resolveItems(s.PS.Cases[i].Items, sw, ok)...)
	}
	if out == nil {
		out = []*Item{}
	}
	return out
}

func resolveArgs(args []*Arg, sw map[string]string, ok *bool) []*Arg {
	var out []*Arg
	for _, a := range args {
		na := &Arg{Toks: a.Toks, Text: a.Text, IsMv: a.IsMv}
		if a.IsMv || a.Moves != nil {
			na.Moves = resolveSteps(a.Moves, sw, ok)
			na.IsMv = true
		}
		out = append(out, na)
	}
	return out
}

func resolveCmd(c *Cmd, sw map[string]string, ok *bool) *Cmd {
	if c == nil {
		return nil
	}
	return &Cmd{Name: c.Name, Parens: c.Parens, Args: resolveArgs(c.Args, sw, ok)}
}

func resolveExpr(e *Expr, sw map[string]string, ok *bool) *Expr {
	if e == nil {
		return nil
	}
	ne := &Expr{K: e.K, L: resolveExpr(e.L, sw, ok), R: resolveExpr(e.R, sw, ok)}
	if e.Leaf != nil {
		l := *e.Leaf
		l.Auto = resolveCmd(e.Leaf.Auto, sw, ok)
		ne.Leaf = &l
	}
	return ne
}

func resolveBlock(b *Block, sw map[string]string, ok *bool) *Block {
	if b == nil {
		return nil
	}
	nb := &Block{Stmts: []*Stmt{}}
	for _, s := range b.Stmts {
		switch s.K {
		case "ps":
			keys := make([]string, len(s.PS.Cases))
			for i, c := range s.PS.Cases {
				keys[i] = c.Key
			}
			i := selectKey(keys, sw[s.PS.Var])
			if i < 0 {
				*ok = false
				continue
			}
			nb.Stmts = append(nb.Stmts, resolveBlock(s.PS.Cases[i].Body, sw, ok).Stmts...)
		case "cmd":
			nb.Stmts = append(nb.Stmts, &Stmt{K: "cmd", Cmd: resolveCmd(s.Cmd, sw, ok)})
		case "if":
			ni := &If{Else: resolveBlock(s.If.Else, sw, ok)}
			for _, a := range s.If.Arms {
				ni.Arms = append(ni.Arms, &Arm{Cond: resolveExpr(a.Cond, sw, ok), Body: resolveBlock(a.Body, sw, ok)})
			}
			nb.Stmts = append(nb.Stmts, &Stmt{K: "if", If: ni})
		case "while":
			nb.Stmts = append(nb.Stmts, &Stmt{K: "while", While: &While{Cond: resolveExpr(s.While.Cond, sw, ok), Body: resolveBlock(s.While.Body, sw, ok)}})
		case "dowhile":
			nb.Stmts = append(nb.Stmts, &Stmt{K: "dowhile", Do: &DoWh{Cond: resolveExpr(s.Do.Cond, sw, ok), Body: resolveBlock(s.Do.Body, sw, ok)}})
		case "switch":
			ns := &Switch{Var: s.Switch.Var, Auto: resolveCmd(s.Switch.Auto, sw, ok)}
			for _, c := range s.Switch.Cases {
				ns.Cases = append(ns.Cases, &Case{Val: c.Val, IsDefault: c.IsDefault, Body: resolveBlock(c.Body, sw, ok)})
			}
			nb.Stmts = append(nb.Stmts, &Stmt{K: "switch", Switch: ns})
		default:
			cp := *s
			nb.Stmts = append(nb.Stmts, &cp)
		}
	}
	return nb
}

// Resolve returns the poryswitch-free twin of a file for the given switches.
func Resolve(f *File, sw map[string]string) (*File, bool) {
	ok := true
	nf := &File{}
	for _, t := range f.Tops {
		switch t.K {
		case "script":
			nf.Tops = append(nf.Tops, &Top{K: "script", Script: &Script{Name: t.Script.Name, Scope: t.Script.Scope, Body: resolveBlock(t.Script.Body, sw, &ok)}})
		case "text":
			nt := &TextStmt{Name: t.Text.Name, Scope: t.Text.Scope, Val: t.Text.Val}
			if t.Text.PS != nil {
				v, k := ResolveText(t.Text.PS, sw)
				if !k {
					ok = false
					v = &TextVal{Lit: &StrLit{Parts: []string{""}}}
				}
				nt.Val = v
			}
			nf.Tops = append(nf.Tops, &Top{K: "text", Text: nt})
		case "movement":
			nf.Tops = append(nf.Tops, &Top{K: "movement", Movement: &Movement{Name: t.Movement.Name, Scope: t.Movement.Scope, Steps: resolveSteps(t.Movement.Steps, sw, &ok)}})
		case "mart":
			nf.Tops = append(nf.Tops, &Top{K: "mart", Mart: &Mart{Name: t.Mart.Name, Scope: t.Mart.Scope, Items: resolveItems(t.Mart.Items, sw, &ok)}})
		case "mapscripts":
			nm := &MapScripts{Name: t.Map.Name, Scope: t.Map.Scope}
			for _, e := range t.Map.Entries {
				ne := &MSEntry{Kind: e.Kind, Type: e.Type, Label: e.Label, Body: resolveBlock(e.Body, sw, &ok)}
				for _, r := range e.Rows {
					ne.Rows = append(ne.Rows, &MSRow{Var: r.Var, Val: r.Val, Label: r.Label, Body: resolveBlock(r.Body, sw, &ok)})
				}
				nm.Entries = append(nm.Entries, ne)
			}
			nf.Tops = append(nf.Tops, &Top{K: "mapscripts", Map: nm})
		default:
			cp := *t
			nf.Tops = append(nf.Tops, &cp)
		}
	}
	return nf, ok
}
