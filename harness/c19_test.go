package harness

import (
	"fmt"
	"strings"
	"testing"
	"unicode/utf8"

	"github.com/huderlem/poryscript/lexer"
	"github.com/huderlem/poryscript/token"
	"pgregory.net/rapid"
)

// C19: tokenisation ignores layout and comments and reports true positions.

type Lexeme struct {
	S    string `json:"s"`    // source text
	Type string `json:"type"` // intended token type
	Lit  string `json:"lit"`  // intended literal
	Glue bool   `json:"glue,omitempty"`
	Raw  bool   `json:"raw,omitempty"`
}

type C19Case struct {
	Lex   []Lexeme `json:"lex"`
	GapsA []string `json:"gaps_a"`
	GapsB []string `json:"gaps_b"`
}

var c19Puncts = []string{"*", "=", "==", "!", "!=", "<", "<=", ">", ">=", "&&", "||", "(", ")", "[", "]", "{", "}", ",", ":"}
var c19Kws = []string{"script", "raw", "text", "movement", "mart", "mapscripts", "format", "var", "flag", "defeated", "TRUE", "FALSE", "true", "false", "if", "else", "elif", "do", "while", "break", "continue", "switch", "case", "default", "global", "local", "poryswitch", "const", "value", "moves"}
var c19Illegal = []string{"\ufeff", "&", "|", "/", "-", ";", "@", ".", "+", "€", "→", "$", "%", "^", "~", "?", "'", "\\", "§", "😀"}

func genLexemeGroup(t *rapid.T) []Lexeme {
	switch rapid.IntRange(0, 11).Draw(t, "cls") {
	case 0, 1:
		w := rapid.StringMatching(`[a-zA-Z_éΩ][a-zA-Z0-9_éß]{0,6}`).Draw(t, "ident")
		return []Lexeme{{S: w, Type: string(token.GetIdentType(w)), Lit: w}}
	case 2:
		w := rapid.SampledFrom(c19Kws).Draw(t, "kw")
		if rapid.IntRange(0, 3).Draw(t, "kwsuffix") == 0 {
			w += rapid.SampledFrom([]string{"s", "_", "2", "é"}).Draw(t, "suffix")
		}
		return []Lexeme{{S: w, Type: string(token.GetIdentType(w)), Lit: w}}
	case 3, 4:
		num := rapid.StringMatching(`(0|[1-9][0-9]{0,3}|-[1-9][0-9]{0,2}|0x[0-9a-fA-F]{1,4}|0x|0[0-9]{1,2}|٣٤|-٣)`).Draw(t, "num")
		return []Lexeme{{S: num, Type: token.INT, Lit: num}}
	case 5, 6:
		p := rapid.SampledFrom(c19Puncts).Draw(t, "punct")
		return []Lexeme{{S: p, Type: p, Lit: p}}
	case 7, 8:
		if rapid.IntRange(0, 3).Draw(t, "typed") == 0 {
			w := rapid.StringMatching(`[a-zé_][a-z0-9]{0,5}`).Draw(t, "stype")
			if rapid.IntRange(0, 4).Draw(t, "kwtype") == 0 {
				w = rapid.SampledFrom(c19Kws).Draw(t, "kwstype")
			}
			s := genStringLexeme(t)
			s.Glue = true
			return []Lexeme{{S: w, Type: token.STRINGTYPE, Lit: w}, s}
		}
		return []Lexeme{genStringLexeme(t)}
	case 9:
		c := rapid.StringMatching("[a-zé \n\t:.\"#/{}]{0,12}").Draw(t, "rawc")
		return []Lexeme{{S: "`" + c + "`", Type: token.RAWSTRING, Lit: strings.TrimRight(c, " \n\t"), Raw: true}}
	default:
		c := rapid.SampledFrom(c19Illegal).Draw(t, "illegal")
		return []Lexeme{{S: c, Type: token.ILLEGAL, Lit: c}}
	}
}

func genLexemes(t *rapid.T) []Lexeme {
	groups := rapid.SliceOfN(rapid.Custom(genLexemeGroup), 1, 30).Draw(t, "lexemes")
	var out []Lexeme
	for _, g := range groups {
		out = append(out, g...)
	}
	return out
}

func genStringLexeme(t *rapid.T) Lexeme {
	n := rapid.IntRange(1, 3).Draw(t, "parts")
	var src, lit strings.Builder
	for i := 0; i < n; i++ {
		c := rapid.StringMatching(`[a-zé $\\{}!.#/'-]{0,6}`).Draw(t, "content")
		if i > 0 {
			src.WriteString(rapid.SampledFrom([]string{" ", "\n", "\n  ", "  \n\t", "", "\r\n"}).Draw(t, "between"))
			lit.WriteString("\n")
		}
		// a line break inside a part, between two non-space characters
		if utf8.RuneCountInString(c) >= 2 && rapid.IntRange(0, 5).Draw(t, "innernl") == 0 {
			_, k := utf8.DecodeRuneInString(c)
			src.WriteString(`"` + c[:k] + "\n   " + c[k:] + `"`)
			lit.WriteString(partValue(c[:k] + "\n   " + c[k:]))
			continue
		}
		src.WriteString(`"` + c + `"`)
		lit.WriteString(c)
	}
	return Lexeme{S: src.String(), Type: token.STRING, Lit: lit.String()}
}

func lexToks(lx []Lexeme) *Printed {
	pr := &Printed{}
	for _, l := range lx {
		pr.Toks = append(pr.Toks, Tok{S: l.S, Glue: l.Glue})
	}
	return pr
}

func c19Src(c *C19Case) string {
	return lexToks(c.Lex).Layout(FixedGaps(c.GapsA)).Src
}

// lexAgainst lexes one layout and compares with the model.
func lexAgainst(c *C19Case, gaps []string, tag string) *Violation {
	pl := lexToks(c.Lex).Layout(FixedGaps(gaps))
	lx := lexer.New(pl.Src)
	for i, l := range c.Lex {
		tok := lx.NextToken()
		if string(tok.Type) != l.Type || tok.Literal != l.Lit {
			return viol("token-sequence", "%s: token %d: got %s %q, intended %s %q\ninput %q", tag, i, tok.Type, tok.Literal, l.Type, l.Lit, pl.Src)
		}
		if tok.LineNumber != pl.Line[i] {
			return viol("start-line", "%s: token %d %q: reported line %d, true line %d\ninput %q", tag, i, l.S, tok.LineNumber, pl.Line[i], pl.Src)
		}
		if tok.StartCharIndex != pl.Col[i] {
			return viol("start-byte-column", "%s: token %d %q: reported byte column %d, true %d\ninput %q", tag, i, l.S, tok.StartCharIndex, pl.Col[i], pl.Src)
		}
		if tok.StartUtf8CharIndex != pl.ColRune[i] {
			return viol("start-rune-column", "%s: token %d %q: reported character column %d, true %d\ninput %q", tag, i, l.S, tok.StartUtf8CharIndex, pl.ColRune[i], pl.Src)
		}
		single := pl.Line[i] == pl.EndLine[i]
		if single && !l.Raw {
			if tok.EndLineNumber != pl.Line[i] {
				return viol("end-line", "%s: token %d %q: reported end line %d, true %d\ninput %q", tag, i, l.S, tok.EndLineNumber, pl.Line[i], pl.Src)
			}
			if tok.EndCharIndex != pl.Col[i]+len(l.S) {
				return viol("end-byte-column", "%s: token %d %q: reported end byte column %d, start+length is %d\ninput %q", tag, i, l.S, tok.EndCharIndex, pl.Col[i]+len(l.S), pl.Src)
			}
			if tok.EndUtf8CharIndex != pl.ColRune[i]+utf8.RuneCountInString(l.S) {
				return viol("end-rune-column", "%s: token %d %q: reported end character column %d, start+length is %d\ninput %q", tag, i, l.S, tok.EndUtf8CharIndex, pl.ColRune[i]+utf8.RuneCountInString(l.S), pl.Src)
			}
		}
	}
	if tok := lx.NextToken(); tok.Type != token.EOF {
		return viol("token-sequence", "%s: expected end of input after %d tokens, got %s %q\ninput %q", tag, len(c.Lex), tok.Type, tok.Literal, pl.Src)
	}
	return nil
}

func checkC19(c *C19Case) (v *Violation) {
	st := stat("C19")
	defer func() {
		if r := recover(); r != nil {
			v = viol("lexer-panic", "lexer panicked: %v\ninput %q", r, c19Src(c))
		}
	}()
	if v := lexAgainst(c, c.GapsA, "layout A"); v != nil {
		return v
	}
	if v := lexAgainst(c, c.GapsB, "layout B"); v != nil {
		return v
	}
	src := c19Src(c)
	// non-trivial: a multi-byte character before a later token on the same line, a comment, >= 2 lines
	multi := false
	for _, line := range strings.Split(src, "\n") {
		idx := strings.IndexFunc(line, func(r rune) bool { return r >= 0x80 })
		if idx >= 0 && len(strings.TrimSpace(line[idx:])) > utf8.RuneLen([]rune(line[idx:])[0]) {
			multi = true
		}
	}
	comment := strings.Contains(strings.Join(c.GapsA, ""), "#") || strings.Contains(strings.Join(c.GapsA, ""), "//")
	nt := multi && comment && strings.Count(src, "\n") >= 1
	st.Eval(src, nt, func() any { return clip(src, 400) })
	st.Add("tokens", int64(2*len(c.Lex)))
	return nil
}

func genC19(t *rapid.T) *C19Case {
	lx := genLexemes(t)
	return &C19Case{Lex: lx, GapsA: drawGaps(t, len(lx), true), GapsB: drawGaps(t, len(lx), true)}
}

// ---- (d) valid programs compile identically under two layouts ----

type C19ProgCase struct {
	File     *File             `json:"file"`
	GapsA    []string          `json:"gaps_a"`
	GapsB    []string          `json:"gaps_b"`
	Auto     AutoCfg           `json:"auto,omitempty"`
	Switches map[string]string `json:"switches,omitempty"`
}

func c19ProgSrc(c *C19ProgCase) string {
	pr := PrintFile(c.File)
	return pr.Layout(FixedGaps(c.GapsA)).Src
}

// fixContinueGaps: nothing to fix; comments are skipped by the lexer so 'continue' still sees '}' next.

func checkC19Prog(c *C19ProgCase) *Violation {
	st := stat("C19")
	pr := PrintFile(c.File)
	canon := pr.Layout(CanonGap(pr.Toks)).Src
	srcA := pr.Layout(FixedGaps(c.GapsA)).Src
	srcB := pr.Layout(FixedGaps(c.GapsB)).Src
	o := Opts{Optimize: true, FontPath: "@repo", Auto: c.Auto, Switches: c.Switches}
	if hash64(canon)%2 == 0 {
		// "the compiled output without line markers": -lm off, but the input path known (as it is on the command line)
		o.Path = "data/maps/Town/scripts.pory"
	}
	r0 := Compile(canon, o)
	for i, s := range []string{srcA, srcB} {
		r := Compile(s, o)
		if r.Panic != nil || r.Budget {
			return viol("crash", "%s\n--- source\n%s", r.Describe(), s)
		}
		if r.OK() != r0.OK() {
			return viol("layout-changes-acceptance", "layout %d: %s, canonical layout: %s\n--- canonical\n%s\n--- layout\n%s", i, r.Describe(), r0.Describe(), canon, s)
		}
		if r.OK() && r.Out != r0.Out {
			return viol("layout-changes-output", "layout %d compiles to a different output than the canonical layout\n--- canonical\n%s\n--- layout\n%s\n--- canonical output\n%s\n--- layout output\n%s", i, canon, s, r0.Out, r.Out)
		}
	}
	if !r0.OK() {
		st.Label("prog-rejected")
		st.Note("last_rejection", clip(r0.Err.Error()+"\n"+canon, 600))
		return nil
	}
	st.Eval(srcA, strings.ContainsAny(srcA, "#") && strings.Count(srcA, "\n") >= 2, func() any { return clip(srcA, 600) }, "program")
	return nil
}

func genC19Prog(t *rapid.T) *C19ProgCase {
	if rapid.IntRange(0, 2).Draw(t, "kitchen") == 0 {
		k := genKitchenCase(t, 0, 3)
		n := len(PrintFile(k.File).Toks)
		return &C19ProgCase{File: k.File, Auto: k.Auto, Switches: k.Switches, GapsA: drawGaps(t, n, true), GapsB: drawGaps(t, n, true)}
	}
	cfg := DefaultFileCfg()
	cfg.MaxTops = 4
	f := GenFile(t, cfg)
	n := len(PrintFile(f).Toks)
	return &C19ProgCase{File: f, GapsA: drawGaps(t, n, true), GapsB: drawGaps(t, n, true)}
}

func init() {
	register("C19", "TestC19_Lexemes", checkC19, c19Src)
	register("C19", "TestC19_Programs", checkC19Prog, c19ProgSrc)
}

const c19Rule = "lexeme sequences of 1-40 over every token class (punctuation/operators, identifiers incl. multi-byte and keyword-prefixed, keywords, decimal/hex/negative/leading-zero/non-ASCII-digit numbers, single- and multi-part strings with in-literal line breaks, typed strings, raw strings, illegal ASCII and multi-byte characters) printed under two independent random layouts (spaces, tabs, LF/CRLF, # and // comments with hostile content) that respect the separator table; both layouts must lex to the intended (type, literal) sequence with true line / byte column / character column, end = start + length for single-line non-raw tokens; plus whole valid programs under two random layouts must compile to the output of the canonical layout. non-trivial = a multi-byte character before a later token on its line AND a comment AND >= 2 lines (programs: a comment and >= 3 lines); distinct by input text"

func TestC19_Regress(t *testing.T) { runRegress(t, "C19") }

func TestC19_Lexemes(t *testing.T) {
	st := stat("C19")
	st.SetRule(c19Rule)
	st.Assume("the printer's needsSeparator table describes which adjacent tokens need layout between them (self-tested: every intended sequence is checked against the lexer itself)")
	runRapid(t, "C19", "TestC19_Lexemes", genC19, checkC19, c19Src)
}

func TestC19_Programs(t *testing.T) {
	st := stat("C19")
	st.SetRule(c19Rule)
	runRapid(t, "C19", "TestC19_Programs", genC19Prog, checkC19Prog, c19ProgSrc)
}

var _ = fmt.Sprint

// FuzzC19 is the native coverage-guided target (thorough tier): the fuzzer's
// bytes are decoded into lexeme and layout choices by the same generator.
func FuzzC19(f *testing.F) {
	f.Add([]byte{0})
	f.Add([]byte("0 0x1F é // c\n\"a\" \"\"`raw`"))
	f.Fuzz(rapid.MakeFuzz(func(t *rapid.T) {
		c := genC19(t)
		if v := checkC19(c); v != nil {
			recordFail("TestC19_Lexemes", v, c, c19Src(c))
			flushFail("C19", "TestC19_Lexemes")
			t.Fatalf("%s: %s", v.Clause, clip(v.Detail, 2000))
		}
	}))
}
