package harness

import (
	"fmt"
	"regexp"
	"strconv"
	"strings"
)

// ALine is one line of emitted assembly.
type ALine struct {
	Label       string   // label definition (without colons) when non-empty
	Global      bool     // defined with "::"
	Op          string   // instruction or directive name (tab-indented lines)
	Args        []string // split at ", "
	Rest        string   // everything after the op, verbatim
	Raw         string   // the line, verbatim
	Marker      int      // line marker number when the line is "# N "file"" (else 0)
	MFile       string
	IsMark      bool
	Other       bool // a non-blank line that is neither label, instruction nor marker (raw text)
	Num         int  // 0-based line index in the output
	BlankBefore bool // a blank line precedes this line
}

// Asm is parsed assembly output.
type Asm struct {
	Lines  []ALine          // non-blank lines, markers included
	Labels map[string][]int // label -> indices into Lines
}

var markerRe = regexp.MustCompile(`^# (\d+) "(.*)"$`)
var labelRe = regexp.MustCompile(`^([^\s:"]+)(::?)$`)

// ParseAsm splits the output into lines. It never fails: unknown shapes are "Other".
func ParseAsm(text string) *Asm {
	a := &Asm{Labels: map[string][]int{}}
	blank := false
	add := func(l ALine) {
		l.BlankBefore = blank
		blank = false
		a.Lines = append(a.Lines, l)
	}
	for n, l := range strings.Split(text, "\n") {
		if strings.TrimSpace(l) == "" {
			blank = true
			continue
		}
		if m := markerRe.FindStringSubmatch(l); m != nil {
			k, _ := strconv.Atoi(m[1])
			add(ALine{IsMark: true, Marker: k, MFile: m[2], Raw: l, Num: n})
			continue
		}
		if m := labelRe.FindStringSubmatch(l); m != nil {
			a.Labels[m[1]] = append(a.Labels[m[1]], len(a.Lines))
			add(ALine{Label: m[1], Global: m[2] == "::", Raw: l, Num: n})
			continue
		}
		if strings.HasPrefix(l, "\t") {
			t := l[1:]
			op, rest := t, ""
			if k := strings.IndexByte(t, ' '); k >= 0 {
				op, rest = t[:k], t[k+1:]
			}
			var args []string
			if rest != "" {
				args = strings.Split(rest, ", ")
			}
			add(ALine{Op: op, Args: args, Rest: rest, Raw: l, Num: n})
			continue
		}
		add(ALine{Other: true, Raw: l, Num: n})
	}
	return a
}

// StripMarkers removes line-marker lines from an output text.
func StripMarkers(text string) string {
	lines := strings.Split(text, "\n")
	out := lines[:0]
	for _, l := range lines {
		if markerRe.MatchString(l) {
			continue
		}
		out = append(out, l)
	}
	return strings.Join(out, "\n")
}

var genDataRe = regexp.MustCompile(`^(.+)_(Text|Movement)_(\d+)$`)

// traceLine renders an executed instruction for the trace: generated text and
// movement labels become placeholders (their content is C06's business).
func traceLine(l ALine) string {
	if len(l.Args) == 0 {
		return l.Op
	}
	parts := make([]string, len(l.Args))
	for i, a := range l.Args {
		if m := genDataRe.FindStringSubmatch(a); m != nil {
			if m[2] == "Text" {
				a = "<text>"
			} else {
				a = "<moves>"
			}
		}
		parts[i] = a
	}
	return l.Op + " " + strings.Join(parts, ", ")
}

type regs struct{ pc, cmp, sw int }

var condNames = map[string]int{"goto_if_lt": 0, "goto_if_eq": 1, "goto_if_gt": 2, "goto_if_le": 3, "goto_if_ge": 4, "goto_if_ne": 5}

func condHolds(n, cmp int) bool {
	switch n {
	case 0:
		return cmp == 0
	case 1:
		return cmp == 1
	case 2:
		return cmp == 2
	case 3:
		return cmp == 0 || cmp == 1
	case 4:
		return cmp == 1 || cmp == 2
	case 5:
		return cmp != 1
	}
	return false
}

// Run interprets the assembly from the entry label with the engine meaning of
// the decomp control-flow macros. Everything else is a command event.
func (a *Asm) Run(entry string, w *World) Outcome {
	var out Outcome
	defs := a.Labels[entry]
	if len(defs) == 0 {
		out.Finish = "NoEntry"
		return out
	}
	pc := defs[0]
	cmp, swv := -1, -1
	epoch := 0
	visited := map[regs]bool{}
	jump := func(l string) bool {
		d := a.Labels[l]
		if len(d) == 0 {
			out.Finish = "JumpOut(" + l + ")"
			return false
		}
		pc = d[0]
		return true
	}
	for steps := 0; ; steps++ {
		if steps > 500000 {
			out.Finish = "StepLimit"
			return out
		}
		if pc >= len(a.Lines) {
			out.Finish = "RunOff(end of output)"
			return out
		}
		k := regs{pc, cmp, swv}
		if visited[k] {
			out.Finish = "SilentLoop"
			return out
		}
		visited[k] = true
		l := a.Lines[pc]
		if l.Label != "" || l.IsMark {
			pc++
			continue
		}
		if l.Other {
			out.Finish = "RunOff(raw line)"
			return out
		}
		need := func(n int) bool {
			if len(l.Args) < n {
				out.Finish = fmt.Sprintf("BadInstruction(%s)", strings.TrimSpace(l.Raw))
				return false
			}
			return true
		}
		switch l.Op {
		case "goto":
			if !need(1) || !jump(l.Args[0]) {
				return out
			}
		case "return":
			out.Finish = "Return"
			return out
		case "end":
			out.Finish = "End"
			return out
		case "goto_if_set", "goto_if_unset":
			if !need(2) {
				return out
			}
			v := w.Flag(l.Args[0], epoch)
			if v == (l.Op == "goto_if_set") {
				if !jump(l.Args[1]) {
					return out
				}
			} else {
				pc++
			}
		case "goto_if_defeated", "goto_if_undefeated":
			if !need(2) {
				return out
			}
			v := w.Trainer(l.Args[0], epoch)
			if v == (l.Op == "goto_if_defeated") {
				if !jump(l.Args[1]) {
					return out
				}
			} else {
				pc++
			}
		case "compare", "compare_var_to_value":
			if !need(2) {
				return out
			}
			x, y := w.Var(l.Args[0], epoch), w.CompareOperand(l.Args[1], l.Op == "compare_var_to_value", epoch)
			switch {
			case x < y:
				cmp = 0
			case x == y:
				cmp = 1
			default:
				cmp = 2
			}
			pc++
		case "checktrainerflag":
			if !need(1) {
				return out
			}
			if w.Trainer(l.Args[0], epoch) {
				cmp = 1
			} else {
				cmp = 0
			}
			pc++
		case "goto_if":
			if !need(2) {
				return out
			}
			n, err := strconv.Atoi(l.Args[0])
			if err != nil {
				out.Finish = fmt.Sprintf("BadInstruction(%s)", strings.TrimSpace(l.Raw))
				return out
			}
			if condHolds(n, cmp) {
				if !jump(l.Args[1]) {
					return out
				}
			} else {
				pc++
			}
		case "goto_if_lt", "goto_if_eq", "goto_if_gt", "goto_if_le", "goto_if_ge", "goto_if_ne":
			if !need(1) {
				return out
			}
			if condHolds(condNames[l.Op], cmp) {
				if !jump(l.Args[0]) {
					return out
				}
			} else {
				pc++
			}
		case "switch":
			if !need(1) {
				return out
			}
			swv = w.Var(l.Args[0], epoch)
			pc++
		case "case":
			if !need(2) {
				return out
			}
			if Val(l.Args[0]) == swv {
				if !jump(l.Args[1]) {
					return out
				}
			} else {
				pc++
			}
		default:
			if strings.HasPrefix(l.Op, ".") || l.Op == "map_script" || l.Op == "map_script_2" {
				out.Finish = "RunOff(" + l.Op + ")"
				return out
			}
			out.Trace = append(out.Trace, traceLine(l))
			epoch++
			visited = map[regs]bool{}
			if len(out.Trace) >= cmdLimit {
				out.Finish = "CommandLimit"
				return out
			}
			pc++
		}
	}
}
