package harness

import (
	"fmt"
	"testing"

	"pgregory.net/rapid"
)

// C11: an AutoVar condition runs its command once, in order, then compares its var.

func autoLeafStats(f *File) (multi bool, loopAuto bool) {
	_, blocks := EntryBlocks(f)
	for _, b := range blocks {
		walkBlocks(b, func(bb *Block) {
			for _, s := range bb.Stmts {
				for _, e := range stmtConds(s) {
					n, seenOther, ok := 0, false, false
					walkLeaves(e, func(l *Leaf) {
						if l.Kind == "auto" {
							n++
							if seenOther {
								ok = true
							}
						} else {
							seenOther = true
						}
					})
					if n >= 2 && ok {
						multi = true
					}
					if n >= 1 && (s.K == "while" || s.K == "dowhile") {
						loopAuto = true
					}
				}
			}
		})
	}
	return
}

func checkC11(c *C01Case) *Violation {
	st := stat("C11")
	src := c01Src(c)
	var worlds []*World
	for _, s := range c.Worlds {
		worlds = append(worlds, &World{Seed: s})
	}
	for _, opt := range []bool{false, true} {
		res := CompileMaybeLM(src, Opts{Optimize: opt, Auto: c.Auto, FontPath: "@repo", Switches: c.Switches})
		if !res.OK() {
			if res.Panic != nil || res.Budget {
				return viol("crash", "opt=%v %s\n--- source\n%s", opt, res.Describe(), src)
			}
			return viol("rejected", "a well-formed AutoVar program was rejected: %v\n--- source\n%s", res.Err, src)
		}
		model := c.File
		if c.Switches != nil {
			r, ok := Resolve(model, c.Switches)
			if !ok {
				panic("harness: C11 poryswitches always have a fallback")
			}
			model = r
		}
		v, _ := diffExec(ExpandConsts(model), c.Auto, res.Out, worlds, fmt.Sprintf("opt=%v", opt))
		if v != nil {
			v.Clause = "autovar-behaviour"
			v.Detail += "\n--- source\n" + src
			return v
		}
	}
	multi, loopAuto := autoLeafStats(c.File)
	var lbl []string
	if multi {
		lbl = append(lbl, "several-autovar-leaves")
	}
	if loopAuto {
		lbl = append(lbl, "autovar-loop-condition")
	}
	st.Eval(src, multi || loopAuto, func() any { return clip(src, 1200) }, lbl...)
	return nil
}

func genAutoCfg(t *rapid.T) AutoCfg {
	if rapid.IntRange(0, 3).Draw(t, "repocfg") == 0 {
		// a subset of the shipped config (same specs)
		full := RepoAuto()
		out := AutoCfg{}
		for _, n := range []string{"checkitem", "random", "specialvar", "checkcoins", "yesnobox", "choosecontestmon", "msgbox"} {
			if s, ok := full[n]; ok {
				out[n] = s
			}
		}
		return out
	}
	cfg := AutoCfg{}
	n := rapid.IntRange(1, 4).Draw(t, "nauto")
	for i := 0; i < n; i++ {
		name := fmt.Sprintf("av%d", i)
		switch rapid.IntRange(0, 4).Draw(t, "spec") {
		case 0:
			cfg[name] = AutoSpec{VarName: "VAR_RESULT"}
		case 1:
			cfg[name] = AutoSpec{VarName: fmt.Sprintf("VAR_0x800%d", i)}
		default:
			p := rapid.IntRange(0, 2).Draw(t, "argpos")
			cfg[name] = AutoSpec{ArgPos: &p}
		}
	}
	return cfg
}

func genC11(t *rapid.T) *C01Case {
	cfg := DefaultCF()
	cfg.MaxDepth = pick(3, 4)
	cfg.Auto = genAutoCfg(t)
	cfg.AutoP = 2
	cfg.CompoundP = 2
	cfg.ExprMax = 5
	cfg.NoGoto = rapid.Bool().Draw(t, "nogoto")
	withPS := rapid.IntRange(0, 2).Draw(t, "withps") == 0
	if withPS {
		// AutoVar conditions and switches inside statement poryswitch cases (colon and brace form)
		cfg.PS = 6
		cfg.PSNoDirectContinue = true
		cfg.PSNestedFallback = true
		cfg.PSAlwaysFallback = true
	}
	n := rapid.IntRange(1, 2).Draw(t, "nscripts")
	c := &C01Case{File: GenScripts(t, cfg, n), Auto: cfg.Auto}
	if withPS {
		c.Switches = map[string]string{"V": rapid.SampledFrom([]string{"A", "B", "1", "zz"}).Draw(t, "swV"), "W": rapid.SampledFrom([]string{"A", "B", "q"}).Draw(t, "swW")}
	}
	// inline text / moves() arguments, also on the AutoVar commands inside conditions
	fcfg := DefaultFileCfg()
	fcfg.CF = cfg
	fg := &fileGen{t: t, cfg: fcfg}
	for _, sc := range c.File.Scripts() {
		fg.decorate(sc.Body)
	}
	// constants named like the configured result vars: the implicit result var of an AutoVar
	// command is not a written token, so it must not be substituted
	if rapid.IntRange(0, 2).Draw(t, "decoyconst") == 0 {
		seen := map[string]bool{}
		for _, n := range sortedKeys(cfg.Auto) {
			if v := cfg.Auto[n].VarName; v != "" && !seen[v] {
				seen[v] = true
				c.File.Tops = append([]*Top{{K: "const", Const: &Const{Name: v, Val: []string{"VAR_DECOY_" + fmt.Sprint(len(seen))}}}}, c.File.Tops...)
			}
		}
	}
	nw := pick(12, 32)
	base := rapid.Uint64Range(1, 1<<40).Draw(t, "world")
	for i := 0; i < nw; i++ {
		c.Worlds = append(c.Worlds, base+uint64(i))
	}
	return c
}

func init() { register("C11", "TestC11_AutoVar", checkC11, c01Src) }

func TestC11_Regress(t *testing.T) { runRegress(t, "C11") }

func TestC11_AutoVar(t *testing.T) {
	st := stat("C11")
	st.SetRule("scripts from the control-flow grammar in which every second leaf and switch operand is an AutoVar command (bare, negated, compared with the six operators and value()), mixed with flag/var/defeated leaves at every position of compound conditions (<= 5 leaves, redundant parentheses, negated groups) in if/elif/while/do-while, with inline text and moves() arguments on ordinary and AutoVar commands; command configs are generated (1-4 commands with a fixed var name - shared or distinct - or an argument position 0-2) or a subset of the shipped config; the AutoVar command is an ordinary trace event of both interpreters and hashed worlds change every var after every command, so exactly-once execution, short-circuit order, repetition per loop iteration, rendering and the compared var are all decided by trace equality under 12 (thorough 32) worlds, optimize off and on. non-trivial = an expression with >= 2 AutoVar leaves after another leaf, or an AutoVar leaf in a loop condition; distinct by source text")
	st.Assume("the reference runs the AutoVar command (one trace event) and then compares the configured var (fixed name, or the argument at the configured position)")
	runRapid(t, "C11", "TestC11_AutoVar", genC11, checkC11, c01Src)
}
