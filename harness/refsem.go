package harness

import (
	"fmt"
	"strings"
)

// Reference semantics: a small-step interpreter over the (poryswitch-free)
// program model. It does not lower anything to gotos.

// AutoSpec describes one AutoVar command of a command config.
type AutoSpec struct {
	VarName string `json:"var_name,omitempty"`
	ArgPos  *int   `json:"var_name_arg_position,omitempty"`
}

// AutoCfg is the harness' view of a command config.
type AutoCfg map[string]AutoSpec

// Outcome of a run: the commands executed and the way the run finished.
type Outcome struct {
	Trace  []string
	Finish string
}

func (o Outcome) String() string {
	return strings.Join(o.Trace, " ; ") + " => " + o.Finish
}

const cmdLimit = 60

type blockKind int

const (
	kScript blockKind = iota
	kArm
	kWhile
	kDo
	kCase
)

type point struct {
	b *Block
	i int
}

type linkInfo struct {
	kind   blockKind
	owner  *Stmt
	parent *Block
	pidx   int
}

// Ref is a linked program ready to be interpreted.
type Ref struct {
	labels map[string]point
	link   map[*Block]*linkInfo
	auto   AutoCfg
}

func (r *Ref) linkBlock(b *Block, kind blockKind, owner *Stmt, parent *Block, pidx int) {
	r.link[b] = &linkInfo{kind, owner, parent, pidx}
	for i, s := range b.Stmts {
		switch s.K {
		case "label":
			r.labels[s.Label.Name] = point{b, i}
		case "if":
			for _, a := range s.If.Arms {
				r.linkBlock(a.Body, kArm, s, b, i)
			}
			if s.If.Else != nil {
				r.linkBlock(s.If.Else, kArm, s, b, i)
			}
		case "while":
			r.linkBlock(s.While.Body, kWhile, s, b, i)
		case "dowhile":
			r.linkBlock(s.Do.Body, kDo, s, b, i)
		case "switch":
			for _, c := range s.Switch.Cases {
				r.linkBlock(c.Body, kCase, s, b, i)
			}
		case "ps":
			panic("refsem: unresolved poryswitch")
		}
	}
}

// EntryBlocks lists every entry point of the file: scripts and inline map scripts.
func EntryBlocks(f *File) (names []string, blocks map[string]*Block) {
	blocks = map[string]*Block{}
	add := func(n string, b *Block) {
		if _, dup := blocks[n]; !dup {
			names = append(names, n)
		}
		blocks[n] = b
	}
	for _, t := range f.Tops {
		switch t.K {
		case "script":
			add(t.Script.Name, t.Script.Body)
		case "mapscripts":
			for _, e := range t.Map.Entries {
				switch e.Kind {
				case "inline":
					add(t.Map.Name+"_"+e.Type, e.Body)
				case "table":
					for i, row := range e.Rows {
						if row.Body != nil {
							add(fmt.Sprintf("%s_%s_%d", t.Map.Name, e.Type, i), row.Body)
						}
					}
				}
			}
		}
	}
	return
}

// NewRef links a file. The file must not contain poryswitch statements.
func NewRef(f *File, auto AutoCfg) *Ref {
	r := &Ref{labels: map[string]point{}, link: map[*Block]*linkInfo{}, auto: auto}
	names, blocks := EntryBlocks(f)
	for _, n := range names {
		r.linkBlock(blocks[n], kScript, nil, nil, 0)
		r.labels[n] = point{blocks[n], 0}
	}
	return r
}

// HasLabel reports whether name is a label known to the reference.
func (r *Ref) HasLabel(name string) bool { _, ok := r.labels[name]; return ok }

func joinToks(t []string) string { return strings.Join(t, " ") }

// RenderCmd renders a command the way both interpreters report it in a trace:
// name, then the arguments, inline data shown as a placeholder.
func RenderCmd(c *Cmd) string {
	if len(c.Args) == 0 {
		return c.Name
	}
	parts := make([]string, len(c.Args))
	for i, a := range c.Args {
		switch {
		case a.Text != nil:
			parts[i] = "<text>"
		case a.IsMv || a.Moves != nil:
			parts[i] = "<moves>"
		default:
			parts[i] = joinToks(a.Toks)
		}
	}
	return c.Name + " " + strings.Join(parts, ", ")
}

type refRun struct {
	r       *Ref
	w       *World
	out     Outcome
	epoch   int
	visited map[point]bool
	done    bool
}

func (x *refRun) event(s string) {
	if x.done {
		return
	}
	x.out.Trace = append(x.out.Trace, s)
	x.epoch++
	x.visited = map[point]bool{}
	if len(x.out.Trace) >= cmdLimit {
		x.out.Finish = "CommandLimit"
		x.done = true
	}
}

// autoVar runs the AutoVar command and returns the name of its result var.
func (x *refRun) autoVar(c *Cmd) string {
	x.event(RenderCmd(c))
	spec := x.r.auto[c.Name]
	if spec.ArgPos != nil {
		a := c.Args[*spec.ArgPos]
		return joinToks(a.Toks)
	}
	return spec.VarName
}

func (x *refRun) leaf(l *Leaf) bool {
	switch l.Kind {
	case "flag", "defeated":
		var v bool
		name := joinToks(l.Operand)
		if l.Kind == "flag" {
			v = x.w.Flag(name, x.epoch)
		} else {
			v = x.w.Trainer(name, x.epoch)
		}
		switch l.Op {
		case "":
			return v
		case "!":
			return !v
		}
		want := strings.ToLower(joinToks(l.Value)) == "true"
		if l.Op == "==" {
			return v == want
		}
		return v != want
	case "var", "auto":
		var name string
		if l.Kind == "auto" {
			name = x.autoVar(l.Auto)
			if x.done {
				return false
			}
		} else {
			name = joinToks(l.Operand)
		}
		v := x.w.Var(name, x.epoch)
		switch l.Op {
		case "":
			return v != 0
		case "!":
			return v == 0
		}
		c := x.w.CompareOperand(joinToks(l.Value), l.Wrap, x.epoch)
		switch l.Op {
		case "==":
			return v == c
		case "!=":
			return v != c
		case "<":
			return v < c
		case "<=":
			return v <= c
		case ">":
			return v > c
		case ">=":
			return v >= c
		}
	}
	panic("refsem: bad leaf " + l.Kind + " " + l.Op)
}

func (x *refRun) eval(e *Expr) bool {
	if x.done {
		return false
	}
	switch e.K {
	case "leaf":
		return x.leaf(e.Leaf)
	case "paren":
		return x.eval(e.L)
	case "not":
		return !x.eval(e.L)
	case "and":
		return x.eval(e.L) && x.eval(e.R)
	case "or":
		return x.eval(e.L) || x.eval(e.R)
	}
	panic("refsem: bad expr " + e.K)
}

// caseBody is the body selected for case index i: its own, or the next non-empty one.
func caseBody(sw *Switch, i int) *Block {
	for j := i; j < len(sw.Cases); j++ {
		if len(sw.Cases[j].Body.Stmts) > 0 {
			return sw.Cases[j].Body
		}
	}
	return nil
}

// Run interprets the program from the entry label.
func (r *Ref) Run(entry string, w *World) Outcome {
	x := &refRun{r: r, w: w, visited: map[point]bool{}}
	p, ok := r.labels[entry]
	if !ok {
		return Outcome{Finish: "NoEntry"}
	}
	b, i := p.b, p.i
	for steps := 0; ; steps++ {
		if x.done {
			return x.out
		}
		if steps > 500000 {
			x.out.Finish = "StepLimit"
			return x.out
		}
		if x.visited[point{b, i}] {
			x.out.Finish = "SilentLoop"
			return x.out
		}
		x.visited[point{b, i}] = true
		li := r.link[b]
		if i == len(b.Stmts) {
			switch li.kind {
			case kScript:
				x.out.Finish = "Return"
				return x.out
			case kArm, kCase:
				b, i = li.parent, li.pidx+1
			case kWhile:
				b, i = li.parent, li.pidx // re-test at the while statement
			case kDo:
				if x.eval(li.owner.Do.Cond) {
					i = 0
				} else {
					b, i = li.parent, li.pidx+1
				}
			}
			continue
		}
		s := b.Stmts[i]
		switch s.K {
		case "cmd":
			c := s.Cmd
			switch {
			case c.Name == "end" && len(c.Args) == 0:
				x.out.Finish = "End"
				return x.out
			case c.Name == "return" && len(c.Args) == 0:
				x.out.Finish = "Return"
				return x.out
			case c.Name == "goto" && len(c.Args) == 1 && len(c.Args[0].Toks) == 1:
				l := c.Args[0].Toks[0]
				if q, ok := r.labels[l]; ok {
					b, i = q.b, q.i
				} else {
					x.out.Finish = "JumpOut(" + l + ")"
					return x.out
				}
			case (c.Name == "goto_if_set" || c.Name == "goto_if_unset") && len(c.Args) == 2 && len(c.Args[0].Toks) == 1 && len(c.Args[1].Toks) == 1:
				// a conditional jump written by hand: the assembly cannot tell it from a generated one, so it
				// is control flow (not an observable command) on both sides
				if x.w.Flag(c.Args[0].Toks[0], x.epoch) == (c.Name == "goto_if_set") {
					l := c.Args[1].Toks[0]
					if q, ok := r.labels[l]; ok {
						b, i = q.b, q.i
					} else {
						x.out.Finish = "JumpOut(" + l + ")"
						return x.out
					}
				} else {
					i++
				}
			default:
				x.event(RenderCmd(c))
				i++
			}
		case "label":
			i++
		case "if":
			taken := false
			for _, a := range s.If.Arms {
				if x.eval(a.Cond) {
					b, i = a.Body, 0
					taken = true
					break
				}
				if x.done {
					return x.out
				}
			}
			if !taken {
				if s.If.Else != nil {
					b, i = s.If.Else, 0
				} else {
					i++
				}
			}
		case "while":
			if s.While.Cond == nil || x.eval(s.While.Cond) {
				b, i = s.While.Body, 0
			} else {
				i++
			}
		case "dowhile":
			b, i = s.Do.Body, 0
		case "break":
			bb := b
			for {
				k := r.link[bb].kind
				if k == kWhile || k == kDo || k == kCase {
					break
				}
				bb = r.link[bb].parent
			}
			b, i = r.link[bb].parent, r.link[bb].pidx+1
		case "continue":
			bb := b
			for {
				k := r.link[bb].kind
				if k == kWhile || k == kDo {
					break
				}
				bb = r.link[bb].parent
			}
			if r.link[bb].kind == kWhile {
				b, i = r.link[bb].parent, r.link[bb].pidx // re-test
			} else {
				b, i = bb, 0 // documented: back to the start of the loop
			}
		case "switch":
			sw := s.Switch
			var name string
			if sw.Auto != nil {
				name = x.autoVar(sw.Auto)
				if x.done {
					return x.out
				}
			} else {
				name = joinToks(sw.Var)
			}
			v := w.Var(name, x.epoch)
			var body *Block
			matched := false
			for ci, c := range sw.Cases {
				if !c.IsDefault && Val(joinToks(c.Val)) == v {
					body = caseBody(sw, ci)
					matched = true
					break
				}
			}
			if !matched {
				for ci, c := range sw.Cases {
					if c.IsDefault {
						body = caseBody(sw, ci)
					}
				}
			}
			if body != nil {
				b, i = body, 0
			} else {
				i++
			}
		default:
			panic("refsem: bad stmt " + s.K)
		}
	}
}
