package harness

import (
	"fmt"
	"strings"
	"testing"

	"pgregory.net/rapid"
)

// C09: text is emitted line by line with exactly one correct terminator.

type C09Case struct {
	File     *File             `json:"file"`
	Switches map[string]string `json:"switches,omitempty"`
	Auto     AutoCfg           `json:"auto,omitempty"`
}

var c09Auto = AutoCfg{"asktext": {VarName: "VAR_RESULT"}}

func c09Src(c *C09Case) string { return CanonMaybeDense(c.File) }

var c09Chunks = []string{"a", "b", "Hello", " ", "  ", "é", "ß", "日本", "{PLAYER}", "{", "}", "$", `\n`, `\p`, `\l`, `\0`, `\`, "!", "?", ".", ",", "'", "#", "//", "`", "%", "0", "x"}

func c09Part(t *rapid.T, last bool, typ string) string {
	n := rapid.IntRange(0, 6).Draw(t, "nchunks")
	var sb strings.Builder
	for i := 0; i < n; i++ {
		sb.WriteString(rapid.SampledFrom(c09Chunks).Draw(t, "chunk"))
		// a line break written inside the literal (followed by indentation)
		// (also as the very last thing before the closing quote: it then leaves one trailing space)
		if rapid.IntRange(0, 9).Draw(t, "innernl") == 0 {
			sb.WriteString(rapid.SampledFrom([]string{"\n", "\n\t\t", "\r\n  ", " \n ", "\n\t\u3000", "\n\u00a0"}).Draw(t, "nlform")) // (a no-break or ideographic space is content, not indentation)
		}
	}
	s := sb.String()
	if n == 0 && rapid.IntRange(0, 11).Draw(t, "onlynl") == 0 {
		s = "\n\t"
	}
	if last {
		switch rapid.IntRange(0, 5).Draw(t, "tail") {
		case 0:
			s += "$"
		case 1:
			s += `\0`
		case 2:
			s += `\`
		}
		// never a doubled terminator ("exactly one" has no unambiguous reading then)
		for strings.HasSuffix(s, "$$") {
			s = s[:len(s)-1]
		}
		for strings.HasSuffix(s, `\0\0`) {
			s = s[:len(s)-2]
		}
	}
	return s
}

func c09Lit(t *rapid.T) *StrLit {
	s := &StrLit{}
	if rapid.IntRange(0, 2).Draw(t, "typed") == 0 {
		s.Type = rapid.SampledFrom([]string{"ascii", "braille", "custom", "x"}).Draw(t, "stype")
	}
	n := rapid.SampledFrom([]int{1, 1, 2, 3, 4}).Draw(t, "nparts")
	for i := 0; i < n; i++ {
		s.Parts = append(s.Parts, c09Part(t, i == n-1, s.Type))
		if i > 0 {
			s.Seps = append(s.Seps, rapid.SampledFrom([]string{"\n", " ", "\n\t", "", "\r\n"}).Draw(t, "partsep"))
		}
	}
	return s
}

func c09TextVal(t *rapid.T) *TextVal {
	v := &TextVal{Lit: c09Lit(t)}
	if rapid.IntRange(0, 4).Draw(t, "format") == 0 {
		v.Format = true
		if rapid.Bool().Draw(t, "fparam") {
			v.Params = []*FParam{{Val: `"1_latin_rse"`}, {Val: fmt.Sprint(rapid.IntRange(20, 120).Draw(t, "flen"))}}
		}
	}
	return v
}

func genC09(t *rapid.T) *C09Case {
	c := &C09Case{File: &File{}, Switches: map[string]string{"V": rapid.SampledFrom([]string{"A", "B", "1", "zz", "0x2", "010", "8", "2"}).Draw(t, "swval")}}
	n := rapid.IntRange(1, 4).Draw(t, "ntexts")
	sc := &Script{Name: "S", Body: &Block{Stmts: []*Stmt{}}}
	for i := 0; i < n; i++ {
		switch rapid.IntRange(0, 4).Draw(t, "origin") {
		case 4: // argument of an AutoVar command inside a condition, at various operand positions
			c.Auto = c09Auto
			auto := eLeaf(&Leaf{Kind: "auto", Auto: &Cmd{Name: "asktext", Args: []*Arg{{Text: c09TextVal(t)}, {Toks: []string{fmt.Sprintf("U_%d", i)}}}}})
			other := eLeaf(&Leaf{Kind: "flag", Operand: []string{"FLAG_A"}})
			var cond *Expr
			switch rapid.IntRange(0, 5).Draw(t, "autopos") {
			case 0:
				cond = auto
			case 1:
				cond = eAnd(other, auto)
			case 2:
				cond = eOr(auto, other)
			case 3:
				cond = eAnd(ePar(auto), other)
			case 4:
				cond = eOr(eAnd(other, auto), eLeaf(&Leaf{Kind: "flag", Operand: []string{"FLAG_B"}}))
			default:
				cond = eNot(eAnd(other, auto))
			}
			stmt := &Stmt{K: "if", If: &If{Arms: []*Arm{{Cond: cond, Body: &Block{Stmts: []*Stmt{}}}}}}
			if rapid.Bool().Draw(t, "aswhile") {
				stmt = &Stmt{K: "while", While: &While{Cond: cond, Body: &Block{Stmts: []*Stmt{sBreak()}}}}
			}
			sc.Body.Stmts = append(sc.Body.Stmts, stmt)
		case 0: // inline argument (sometimes two in one command)
			cmd := &Cmd{Name: fmt.Sprintf("c%d", i), Args: []*Arg{{Text: c09TextVal(t)}}}
			if rapid.IntRange(0, 3).Draw(t, "twotexts") == 0 {
				cmd.Args = append(cmd.Args, &Arg{Toks: []string{"X"}}, &Arg{Text: c09TextVal(t)})
			}
			sc.Body.Stmts = append(sc.Body.Stmts, sCmd(cmd))
		case 1: // text statement with poryswitch
			ps := &PSText{Var: "V"}
			keys := rapid.Permutation([]string{"A", "B", "1", "_", "0x2", "010"}).Draw(t, "pskeys") // numeric keys are compared as written
			nk := rapid.IntRange(1, 4).Draw(t, "npskeys")
			for _, k := range keys[:nk] {
				ps.Cases = append(ps.Cases, &PSTextCase{Key: k, Brace: rapid.Bool().Draw(t, "brace"), Val: c09TextVal(t)})
			}
			c.File.Tops = append(c.File.Tops, &Top{K: "text", Text: &TextStmt{Name: fmt.Sprintf("Txt%d", i), PS: ps}})
		default:
			ts := &TextStmt{Name: fmt.Sprintf("Txt%d", i), Val: c09TextVal(t)}
			if rapid.IntRange(0, 3).Draw(t, "scoped") == 0 {
				ts.Scope = rapid.SampledFrom([]string{"global", "local"}).Draw(t, "scope")
			}
			c.File.Tops = append(c.File.Tops, &Top{K: "text", Text: ts})
		}
	}
	// a constant whose name is also the whole content of some text: text content is never substituted
	if rapid.IntRange(0, 3).Draw(t, "constname") == 0 {
		c.File.Tops = append([]*Top{{K: "const", Const: &Const{Name: "KONST", Val: []string{"7"}}}}, c.File.Tops...)
		for _, s := range sc.Body.Stmts {
			if s.K == "cmd" && rapid.Bool().Draw(t, "useconstname") {
				s.Cmd.Args[0].Text = &TextVal{Lit: &StrLit{Parts: []string{"KONST"}}}
			}
		}
		for _, tp := range c.File.Tops {
			if tp.K == "text" && tp.Text.Val != nil && rapid.IntRange(0, 2).Draw(t, "useconstname2") == 0 {
				tp.Text.Val = &TextVal{Lit: &StrLit{Parts: []string{"KONST"}}}
			}
		}
	}
	if len(sc.Body.Stmts) > 0 {
		pos := rapid.IntRange(0, len(c.File.Tops)).Draw(t, "scriptpos")
		c.File.Tops = append(c.File.Tops[:pos], append([]*Top{{K: "script", Script: sc}}, c.File.Tops[pos:]...)...)
	}
	return c
}

// checkTextBlock verifies one emitted text against the clauses of C09.
func checkTextBlock(a *Asm, label string, v *TextVal, want string) *Violation {
	defs := a.Labels[label]
	if len(defs) != 1 {
		return viol("text-label", "text label %s is defined %d times", label, len(defs))
	}
	got := a.blockAfter(label)
	dir := ".string"
	if v.Lit.Type != "" {
		dir = "." + v.Lit.Type
	}
	var content []string
	for _, l := range got {
		if l.Op != dir {
			return viol("directive", "under %s: directive %q, expected %q (line %q)", label, l.Op, dir, l.Raw)
		}
		if !strings.HasPrefix(l.Rest, `"`) || !strings.HasSuffix(l.Rest, `"`) || len(l.Rest) < 2 {
			return viol("directive-shape", "under %s: line %q is not <directive> \"...\"", label, l.Raw)
		}
		content = append(content, l.Rest[1:len(l.Rest)-1])
	}
	if !v.Format && len(content) != len(v.Lit.Parts) {
		return viol("one-directive-per-line", "under %s: %d directives for %d source lines\n%s", label, len(content), len(v.Lit.Parts), strings.Join(rawLines(got), "\n"))
	}
	if strings.Join(content, "\n") != want {
		return viol("text-content", "under %s: emitted\n%q\nexpected\n%q", label, strings.Join(content, "\n"), want)
	}
	// exactly one terminator at the very end (the author's own is not doubled)
	all := strings.Join(content, "\n")
	srcVal := LitValue(v.Lit)
	switch v.Lit.Type {
	case "", "braille":
		if !strings.HasSuffix(all, "$") {
			return viol("terminator", "under %s: text does not end in '$': %q", label, all)
		}
		if !v.Format && strings.HasSuffix(srcVal, "$") && all != srcVal {
			return viol("terminator-doubled", "under %s: the author's terminator was not kept as the only one: %q from %q", label, all, srcVal)
		}
		if !v.Format && !strings.HasSuffix(srcVal, "$") && all != srcVal+"$" {
			return viol("terminator", "under %s: expected the source text plus one '$': %q from %q", label, all, srcVal)
		}
	case "ascii":
		if !strings.HasSuffix(all, `\0`) {
			return viol("terminator", "under %s: ascii text does not end in \\0: %q", label, all)
		}
		if !v.Format && strings.HasSuffix(srcVal, `\0`) && all != srcVal {
			return viol("terminator-doubled", "under %s: the author's terminator was not kept as the only one: %q from %q", label, all, srcVal)
		}
	default:
		if !v.Format && all != srcVal {
			return viol("terminator-added", "under %s: a terminator (or something else) was added to a %s text: %q from %q", label, v.Lit.Type, all, srcVal)
		}
	}
	return nil
}

func checkC09(c *C09Case) *Violation {
	st := stat("C09")
	src := c09Src(c)
	fc := RepoFonts()
	resolved, ok := Resolve(c.File, c.Switches)
	res := CompileMaybeLM(src, Opts{Optimize: true, FontPath: "@repo", Switches: c.Switches, Auto: c.Auto})
	if res.Panic != nil || res.Budget {
		return viol("crash", "%s\n--- source\n%s", res.Describe(), src)
	}
	if !ok {
		if res.Err == nil {
			return viol("missing-case-accepted", "a poryswitch has no matching case and no '_', but the program was accepted\n--- source\n%s", src)
		}
		st.Eval(src, false, nil, "no-case-rejected")
		return nil
	}
	if res.Err != nil {
		return viol("rejected", "a well-formed text program was rejected: %v\n--- source\n%s", res.Err, src)
	}
	a := ParseAsm(res.Out)
	detail := func(v *Violation) *Violation {
		v.Detail += "\n--- source\n" + src + "--- output\n" + res.Out
		return v
	}
	bind, ferr := ComputeBinding(resolved, fc, "", 0)
	if ferr != nil {
		panic("harness: " + ferr.Error())
	}
	nt := false
	for _, t := range resolved.Tops {
		switch t.K {
		case "text":
			want, err := TextValue(t.Text.Val, fc, "", 0)
			if err != nil {
				panic("harness: " + err.Error())
			}
			if v := checkTextBlock(a, t.Text.Name, t.Text.Val, want); v != nil {
				return detail(v)
			}
			if len(t.Text.Val.Lit.Parts) > 1 || t.Text.Val.Lit.Type != "" {
				nt = true
			}
		case "script":
			var cmds []*Cmd
			walkCmdsOrdered(t.Script.Body, func(cmd *Cmd) { cmds = append(cmds, cmd) })
			for _, cmd := range cmds {
				for _, ar := range cmd.Args {
					if ar.Text == nil {
						continue
					}
					lbl := bind.ArgLabel[ar]
					if v := checkTextBlock(a, lbl, ar.Text, bind.Labels[lbl].Value); v != nil {
						// identical content may be shared between arguments with a different number of parts:
						// the directive count then follows the first owner; only report when this argument owns the label
						if v.Clause == "one-directive-per-line" && !ownsLabel(bind, resolved, ar, lbl) {
							continue
						}
						_ = v
						panicIfNil(v)
						return detail(v)
					}
				}
			}
		}
	}
	for _, t := range c.File.Tops {
		if t.K == "text" && t.Text.PS != nil {
			nt = true
		}
	}
	st.Eval(src, nt, func() any { return clip(src, 700) })
	return nil
}

func panicIfNil(v *Violation) {
	if v == nil {
		panic("nil violation")
	}
}

// ownsLabel: ar is the first argument (in source order) bound to lbl.
func ownsLabel(b *Binding, f *File, ar *Arg, lbl string) bool {
	first := true
	owner := false
	names, blocks := EntryBlocks(f)
	for _, n := range names {
		walkCmdsOrdered(blocks[n], func(c *Cmd) {
			for _, x := range c.Args {
				if b.ArgLabel[x] == lbl && first {
					first = false
					owner = x == ar
				}
			}
		})
	}
	return owner
}

func init() { register("C09", "TestC09_Text", checkC09, c09Src) }

func TestC09_Regress(t *testing.T) { runRegress(t, "C09") }

func TestC09_Text(t *testing.T) {
	st := stat("C09")
	st.SetRule("1-4 texts per file from every origin (inline argument, argument of an AutoVar command at various operand positions of a condition, text statement with scope, format() with and without parameters, text poryswitch with colon/brace cases, '_' fallback, missing case); literals of 1-4 parts over letters, multi-byte characters, braces, $, backslash codes, quotes-free punctuation, comment characters, empty parts, line breaks written inside a part, tails that already end in the terminator or a prefix of it; types none/ascii/braille/other; each emitted block must have the right directive, one directive per source part, the source content and exactly one correct terminator. non-trivial = multi-part or typed or poryswitch origin; distinct by source text")
	st.Assume("a literal's value: parts joined by newline, a line break inside a part plus following whitespace is one space", "texts ending in a doubled terminator are outside the generated domain")
	runRapid(t, "C09", "TestC09_Text", genC09, checkC09, c09Src)
}
