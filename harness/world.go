package harness

import (
	"hash/fnv"
	"strconv"
	"strings"
)

// World is the game state: a pure function of (kind, name, epoch), where the
// epoch is the number of commands executed so far. Fixed entries override the
// hash and are epoch independent ("scripted" worlds).
type World struct {
	Seed   uint64         `json:"seed"`
	Fixed  map[string]int `json:"fixed,omitempty"`
	VarMod int            `json:"varmod,omitempty"` // hashed vars take values 0..VarMod-1 (default 5)
}

func (w *World) h(kind, name string, epoch int) uint64 {
	h := fnv.New64a()
	h.Write([]byte(strconv.FormatUint(w.Seed, 10)))
	h.Write([]byte{'|'})
	h.Write([]byte(kind))
	h.Write([]byte{'|'})
	h.Write([]byte(name))
	h.Write([]byte{'|'})
	h.Write([]byte(strconv.Itoa(epoch)))
	x := h.Sum64()
	// final avalanche (fnv's low bits are weak for short inputs)
	x ^= x >> 33
	x *= 0xff51afd7ed558ccd
	x ^= x >> 33
	return x
}

func (w *World) Flag(name string, epoch int) bool {
	if v, ok := w.Fixed["flag:"+name]; ok {
		return v != 0
	}
	return w.h("flag", name, epoch)%2 == 0
}

func (w *World) Trainer(name string, epoch int) bool {
	if v, ok := w.Fixed["trainer:"+name]; ok {
		return v != 0
	}
	return w.h("trainer", name, epoch)%2 == 0
}

func (w *World) Var(name string, epoch int) int {
	if v, ok := w.Fixed["var:"+name]; ok {
		return v
	}
	m := w.VarMod
	if m <= 0 {
		m = 5
	}
	return int(w.h("var", name, epoch) % uint64(m))
}

// Val is the number denoted by a comparison or case value: integer literals
// (decimal, hex, negative) denote themselves; anything else is a symbol with
// an injective (hash based, >= 0x10000) value that does not depend on the world.
func Val(s string) int {
	s = strings.TrimSpace(s)
	// a parenthesised single value denotes the value
	for strings.HasPrefix(s, "(") && strings.HasSuffix(s, ")") {
		s = strings.TrimSpace(s[1 : len(s)-1])
	}
	if n, err := strconv.ParseInt(s, 0, 64); err == nil {
		return int(n)
	}
	h := fnv.New64a()
	h.Write([]byte(s))
	return 0x10000 + int(h.Sum64()%1000000007)
}

// IsVarID reports whether a number is in the ranges the game's "compare"
// command reads as a variable id rather than a raw value (manual: 0x4000..0x40FF
// and 0x8000..0x8015); value(N) / compare_var_to_value force the raw reading.
func IsVarID(n int) bool {
	return (n >= 0x4000 && n <= 0x40FF) || (n >= 0x8000 && n <= 0x8015)
}

// CompareOperand is the number "compare VAR, text" compares with: the raw
// value, or - for "compare" with a value in the var-id ranges - the content of that var.
func (w *World) CompareOperand(text string, raw bool, epoch int) int {
	n := Val(text)
	if !raw && IsVarID(n) {
		return w.Var(text, epoch)
	}
	return n
}
