package harness

import (
	"fmt"
	"os"
	"path/filepath"
	"strconv"
	"strings"
	"sync"

	"github.com/huderlem/poryscript/parser"
)

// Model-side knowledge about text values, movement lists and hoisting.

var repoFontsOnce sync.Once
var repoFonts parser.FontConfig

func RepoFonts() *parser.FontConfig {
	repoFontsOnce.Do(func() {
		fc, err := parser.LoadFontConfig(filepath.Join(repoRoot, "font_config.json"))
		if err != nil {
			panic(err)
		}
		repoFonts = fc
	})
	return &repoFonts
}

func unquote(s string) string { return strings.Trim(s, `"`) }

func atoi0(s string) int {
	n, _ := strconv.ParseInt(s, 0, 64)
	return int(n)
}

// FormatParams resolves the parameters of a format() call the way the manual
// documents: positional font id and/or line length in either order, then named
// parameters; anything not given comes from the CLI defaults, then the font config.
type FormatParams struct {
	FontID  string
	MaxLen  int
	Lines   int
	Overlap int
}

func ResolveFormat(v *TextVal, fc *parser.FontConfig, cliFont string, cliLen int) FormatParams {
	p := FormatParams{MaxLen: cliLen, Lines: -1, Overlap: -1}
	if cliFont != "" {
		p.FontID = cliFont
	} else {
		p.FontID = fc.DefaultFontID
	}
	for _, fp := range v.Params {
		switch fp.Name {
		case "":
			if strings.HasPrefix(fp.Val, `"`) {
				p.FontID = unquote(fp.Val)
			} else {
				p.MaxLen = atoi0(fp.Val)
			}
		case "fontId":
			p.FontID = unquote(fp.Val)
		case "maxLineLength":
			p.MaxLen = atoi0(fp.Val)
		case "numLines":
			p.Lines = atoi0(fp.Val)
		case "cursorOverlapWidth":
			p.Overlap = atoi0(fp.Val)
		}
	}
	font := fc.Fonts[p.FontID]
	if p.MaxLen <= 0 {
		p.MaxLen = font.MaxLineLength
	}
	if p.Lines <= 0 {
		p.Lines = font.NumLines
		if p.Lines <= 0 {
			p.Lines = 2
		}
	}
	if p.Overlap <= 0 {
		p.Overlap = font.CursorOverlapWidth
	}
	return p
}

// TextValue is the final content of a text: literal value, formatted if
// requested (through the exported FormatText - its correctness is C07's
// subject), then terminated.
func TextValue(v *TextVal, fc *parser.FontConfig, cliFont string, cliLen int) (string, error) {
	val := LitValue(v.Lit)
	if v.Format {
		p := ResolveFormat(v, fc, cliFont, cliLen)
		out, err := fc.FormatText(val, p.MaxLen, p.Overlap, p.FontID, p.Lines)
		if err != nil {
			return "", err
		}
		val = out
	}
	return Terminated(val, v.Lit.Type), nil
}

// ExpandSteps expands multipliers of a (poryswitch-free) step list.
func ExpandSteps(steps []*Step) []string {
	var out []string
	for _, s := range steps {
		if s.Comma || s.PS != nil {
			continue
		}
		n := 1
		if s.Mul != "" {
			n = atoi0(s.Mul)
		}
		for i := 0; i < n; i++ {
			out = append(out, s.Name)
		}
	}
	return out
}

// EmittedSteps is what a movement block must contain: the steps up to and
// including the first step_end, which is appended when absent.
func EmittedSteps(expanded []string) []string {
	var out []string
	for _, s := range expanded {
		out = append(out, s)
		if s == "step_end" {
			return out
		}
	}
	return append(out, "step_end")
}

// walkCmdsOrdered visits every command of a block in source (= parse) order,
// AutoVar commands of conditions and switch operands included.
func walkCmdsOrdered(b *Block, fn func(*Cmd)) {
	if b == nil {
		return
	}
	var ex func(e *Expr)
	ex = func(e *Expr) {
		walkLeaves(e, func(l *Leaf) {
			if l.Kind == "auto" {
				fn(l.Auto)
			}
		})
	}
	for _, s := range b.Stmts {
		switch s.K {
		case "cmd":
			fn(s.Cmd)
		case "if":
			for _, a := range s.If.Arms {
				ex(a.Cond)
				walkCmdsOrdered(a.Body, fn)
			}
			walkCmdsOrdered(s.If.Else, fn)
		case "while":
			if s.While.Cond != nil {
				ex(s.While.Cond)
			}
			walkCmdsOrdered(s.While.Body, fn)
		case "dowhile":
			walkCmdsOrdered(s.Do.Body, fn)
			ex(s.Do.Cond)
		case "switch":
			if s.Switch.Auto != nil {
				fn(s.Switch.Auto)
			}
			for _, c := range s.Switch.Cases {
				walkCmdsOrdered(c.Body, fn)
			}
		case "ps":
			for _, c := range s.PS.Cases {
				walkCmdsOrdered(c.Body, fn)
			}
		}
	}
}

// Hoisted is the expected binding of one hoisted label.
type Hoisted struct {
	Label string
	Text  bool     // text (else movement)
	Type  string   // string type
	Value string   // final text value (lines separated by \n)
	Steps []string // emitted steps
}

// Binding is the expected result of hoisting for a whole file.
type Binding struct {
	ArgLabel map[*Arg]string     // inline argument -> label
	Labels   map[string]*Hoisted // label -> content
	Order    []string            // labels in order of creation
}

// ComputeBinding walks the file as the property statement describes: scripts
// in source order, commands in source order, first appearance of a
// (content, type) / step list owns <script>_Text_<n> / <script>_Movement_<n>
// with n counting that script's first appearances; sharing is file-wide.
func ComputeBinding(f *File, fc *parser.FontConfig, cliFont string, cliLen int) (*Binding, error) {
	b := &Binding{ArgLabel: map[*Arg]string{}, Labels: map[string]*Hoisted{}}
	textCount, moveCount := map[string]int{}, map[string]int{}
	textSet, moveSet := map[string]string{}, map[string]string{}
	var firstErr error
	visit := func(script string, body *Block) {
		walkCmdsOrdered(body, func(c *Cmd) {
			for _, a := range c.Args {
				switch {
				case a.Text != nil:
					val, err := TextValue(a.Text, fc, cliFont, cliLen)
					if err != nil {
						if firstErr == nil {
							firstErr = err
						}
						continue
					}
					key := a.Text.Lit.Type + "\x00" + val
					lbl, ok := textSet[key]
					if !ok {
						lbl = fmt.Sprintf("%s_Text_%d", script, textCount[script])
						textCount[script]++
						textSet[key] = lbl
						b.Labels[lbl] = &Hoisted{Label: lbl, Text: true, Type: a.Text.Lit.Type, Value: val}
						b.Order = append(b.Order, lbl)
					}
					b.ArgLabel[a] = lbl
				case a.IsMv || a.Moves != nil:
					exp := ExpandSteps(a.Moves)
					key := strings.Join(exp, ":") + ":"
					lbl, ok := moveSet[key]
					if !ok {
						lbl = fmt.Sprintf("%s_Movement_%d", script, moveCount[script])
						moveCount[script]++
						moveSet[key] = lbl
						b.Labels[lbl] = &Hoisted{Label: lbl, Steps: EmittedSteps(exp)}
						b.Order = append(b.Order, lbl)
					}
					b.ArgLabel[a] = lbl
				}
			}
		})
	}
	for _, t := range f.Tops {
		switch t.K {
		case "script":
			visit(t.Script.Name, t.Script.Body)
		case "mapscripts":
			for _, e := range t.Map.Entries {
				switch e.Kind {
				case "inline":
					visit(t.Map.Name+"_"+e.Type, e.Body)
				case "table":
					for i, r := range e.Rows {
						if r.Body != nil {
							visit(fmt.Sprintf("%s_%s_%d", t.Map.Name, e.Type, i), r.Body)
						}
					}
				}
			}
		}
	}
	return b, firstErr
}

// blockAfter returns the instruction/directive lines that follow the label's
// definition up to the next label (markers skipped).
func (a *Asm) blockAfter(label string) []ALine {
	defs := a.Labels[label]
	if len(defs) == 0 {
		return nil
	}
	var out []ALine
	for i := defs[0] + 1; i < len(a.Lines); i++ {
		l := a.Lines[i]
		if l.IsMark {
			continue
		}
		if l.Label != "" || l.BlankBefore || l.Op == ".align" {
			break
		}
		out = append(out, l)
	}
	return out
}

// textDirectives renders the directive lines a text value must be emitted as.
func textDirectives(value, typ string) []string {
	dir := "string"
	if typ != "" {
		dir = typ
	}
	var out []string
	for _, line := range strings.Split(value, "\n") {
		out = append(out, fmt.Sprintf("\t.%s \"%s\"", dir, line))
	}
	return out
}

func rawLines(ls []ALine) []string {
	out := make([]string, len(ls))
	for i, l := range ls {
		out[i] = l.Raw
	}
	return out
}

var _ = os.Getenv
