package harness

import (
	"encoding/json"
	"io"
	"log"
	"os"
	"testing"
)

func TestMain(m *testing.M) {
	log.SetOutput(io.Discard) // the parser logs PORYSCRIPT WARNING lines
	if os.Getenv("VERIF_REPLAY") == "" {
		startWatchdog()
	}
	code := m.Run()
	flushStats()
	cleanupTmp()
	os.Exit(code)
}

// TestReplay re-runs one replay / regression file (VERIF_REPLAY) through its oracle.
func TestReplay(t *testing.T) {
	path := os.Getenv("VERIF_REPLAY")
	if path == "" {
		t.Skip("VERIF_REPLAY not set")
	}
	b, err := os.ReadFile(path)
	if err != nil {
		t.Fatal(err)
	}
	var rf ReplayFile
	if err := json.Unmarshal(b, &rf); err != nil {
		t.Fatal(err)
	}
	cd := checks[rf.Test]
	if cd == nil {
		t.Fatalf("unknown test %q", rf.Test)
	}
	v, src, err := cd.Replay(rf.Case)
	if err != nil {
		t.Fatal(err)
	}
	say("--- source\n%s", src)
	if v != nil {
		say("VIOLATION property=%s replay=%s", rf.Property, path)
		say("  clause: %s\n%s", v.Clause, v.Detail)
		t.Fail()
		return
	}
	say("REPLAY OK property=%s (the case no longer violates the property)", rf.Property)
}
