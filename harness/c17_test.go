package harness

import (
	"github.com/huderlem/poryscript/emitter"
	"github.com/huderlem/poryscript/lexer"
	"github.com/huderlem/poryscript/parser"

	"crypto/sha256"
	"encoding/json"
	"fmt"
	"os"
	"os/exec"
	"regexp"
	"strings"
	"sync"
	"testing"

	"pgregory.net/rapid"
)

// C17: compilation is deterministic and independent of unrelated statements.

// Comp is one compilation request.
type Comp struct {
	Src  string `json:"src"`
	Opts Opts   `json:"opts"`
}

func (c *Comp) run() string {
	r := Compile(c.Src, c.Opts)
	switch {
	case r.Panic != nil:
		return fmt.Sprintf("PANIC %v", r.Panic)
	case r.Budget:
		return "BUDGET"
	case r.Err != nil:
		if r.PErr != nil {
			return fmt.Sprintf("ERROR %d-%d %d-%d %s", r.PErr.LineNumberStart, r.PErr.LineNumberEnd, r.PErr.CharStart, r.PErr.CharEnd, r.Err.Error())
		}
		return "ERROR " + r.Err.Error()
	}
	return "OK\n" + r.Out
}

// ---- (1) repeatability ----

type C17Repeat struct {
	Comp Comp `json:"comp"`
}

func c17RepeatSrc(c *C17Repeat) string { return c.Comp.Src }

func checkC17Repeat(c *C17Repeat) *Violation {
	st := stat("C17")
	first := c.Comp.run()
	for i := 1; i < 5; i++ {
		if again := c.Comp.run(); again != first {
			return viol("not-repeatable", "compilation %d of the same input with the same options differs from the first\n--- first\n%s\n--- later\n%s\n--- options %+v\n--- source\n%s", i+1, clip(first, 3000), clip(again, 3000), c.Comp.Opts, c.Comp.Src)
		}
	}
	// one parse, several emits: emitting must not change the parsed program
	if !c.Comp.Opts.Lint {
		if v := emitTwice(&c.Comp); v != nil {
			return v
		}
	}
	chunks := strings.Count(first, ":\n")
	st.Eval(c.Comp.Src+fmt.Sprint(c.Comp.Opts), chunks >= 3 || strings.HasPrefix(first, "ERROR"), func() any { return clip(c.Comp.Src, 500) }, "repeat")
	return nil
}

// c17Opts draws option sets incl. ones whose error text is built from the font table.
func c17Opts(t *rapid.T) Opts {
	o := Opts{Optimize: rapid.Bool().Draw(t, "opt"), LineMarkers: rapid.Bool().Draw(t, "lm"), FontPath: "@repo", Auto: c16Auto}
	if o.LineMarkers {
		o.Path = rapid.SampledFrom([]string{"f.pory", `data\maps\Route1\scripts.pory`, "a%b/c.pory"}).Draw(t, "path")
	}
	switch rapid.IntRange(0, 7).Draw(t, "fontopt") {
	case 0:
		o.FontID = "bogus" // error lists the font ids
	case 1:
		o.FontPath = ""
		o.FontJSON = `{"defaultFontId":"A","fonts":{"A":{"widths":{"default":5},"maxLineLength":60,"numLines":2},"B":{"widths":{},"maxLineLength":10},"C":{"widths":{},"maxLineLength":10},"D":{"widths":{},"maxLineLength":10},"E":{"widths":{},"maxLineLength":10}}}`
		if rapid.Bool().Draw(t, "bogus2") {
			o.FontID = "nope"
		}
	case 2:
		o.MaxLen = 40
	case 3: // the default font has no numLines (a documented fallback applies - every time)
		o.FontPath = ""
		o.FontJSON = `{"defaultFontId":"A","fonts":{"A":{"widths":{"default":6," ":3},"maxLineLength":60,"cursorOverlapWidth":4},"1_latin_rse":{"widths":{"default":6," ":3},"maxLineLength":80},"1_latin_frlg":{"widths":{"default":5," ":3},"maxLineLength":70}}}`
	case 4: // no default font id, fonts of different metrics: whatever happens must happen every time
		o.FontPath = ""
		o.FontJSON = `{"fonts":{"N":{"widths":{"default":2," ":1},"maxLineLength":60,"numLines":2},"W":{"widths":{"default":9," ":4},"maxLineLength":60,"numLines":2},"X":{"widths":{"default":14," ":6},"maxLineLength":60,"numLines":3}}}`
	}
	if rapid.Bool().Draw(t, "sw") {
		o.Switches = map[string]string{"V": "A", "W": "B"}
	}
	o.Lint = rapid.IntRange(0, 5).Draw(t, "lint") == 0
	return o
}

func c17Program(t *rapid.T) string {
	cfg := DefaultFileCfg()
	cfg.CF.MaxDepth = 3
	cfg.CF.Auto = c16Auto
	cfg.CF.AutoP = 5
	cfg.CF.PS = 12
	cfg.CF.PSNoDirectContinue = true
	cfg.MaxTops = 5
	f := GenFile(t, cfg)
	if scripts := f.Scripts(); len(scripts) > 0 && rapid.IntRange(0, 5).Draw(t, "emitfail") == 0 {
		// an error raised by the emitter (not the parser): a script label equal to a text label,
		// at the end of a script so that the emitter has already worked on the script
		sc := scripts[rapid.IntRange(0, len(scripts)-1).Draw(t, "emitfailscript")]
		sc.Body.Stmts = append(sc.Body.Stmts, sLabel("ClashTxt"))
		f.Tops = append(f.Tops, &Top{K: "text", Text: &TextStmt{Name: "ClashTxt", Val: &TextVal{Lit: &StrLit{Parts: []string{"clash"}}}}})
	}
	if rapid.IntRange(0, 2).Draw(t, "consts") == 0 {
		constify(t, f, c16Auto)
	}
	if rapid.IntRange(0, 7).Draw(t, "dupnames") == 0 {
		// several different duplicated names: which one is reported must not vary from run to run
		for _, n := range []string{"DupAlpha", "DupBeta", "DupGamma"} {
			for k := 0; k < 2; k++ {
				if rapid.Bool().Draw(t, "duptext") {
					f.Tops = append(f.Tops, &Top{K: "text", Text: &TextStmt{Name: n, Val: &TextVal{Lit: &StrLit{Parts: []string{n}}}}})
				} else {
					f.Tops = append(f.Tops, &Top{K: "movement", Movement: &Movement{Name: n, Steps: []*Step{{Name: "walk_up"}}}})
				}
			}
		}
	}
	src := Canon(f)
	if rapid.IntRange(0, 3).Draw(t, "break") == 0 {
		// make it invalid somewhere: errors must be repeatable too
		toks := strings.Fields(src)
		if len(toks) > 2 {
			i := rapid.IntRange(0, len(toks)-1).Draw(t, "pos")
			switch rapid.IntRange(0, 2).Draw(t, "how") {
			case 0:
				toks = append(toks[:i], toks[i+1:]...)
			case 1:
				toks[i] = rapid.SampledFrom(c18Vocab).Draw(t, "tok")
			default:
				toks = toks[:i]
			}
			src = strings.Join(toks, " ")
		}
	}
	return src
}

func genC17Repeat(t *rapid.T) *C17Repeat {
	return &C17Repeat{Comp: Comp{Src: c17Program(t), Opts: c17Opts(t)}}
}

// emitTwice parses once and emits the same program with optimize off, on and off again;
// each output must equal the output of a separate compilation with that setting.
func emitTwice(c *Comp) (v *Violation) {
	defer func() {
		if r := recover(); r != nil {
			v = nil // panics are C18's subject
		}
	}()
	o := c.Opts
	p := parser.New(lexer.New(c.Src), toCC(o.Auto), fontPathFor(o), o.FontID, o.MaxLen, o.Switches)
	prog, err := p.ParseProgram()
	if err != nil {
		return nil
	}
	same := emitter.New(prog, true, o.LineMarkers, o.Path)
	for i, opt := range []bool{false, true, false, true, true} {
		var out string
		var err error
		if i >= 3 {
			out, err = same.Emit() // the same Emitter value, used twice
		} else {
			out, err = emitter.New(prog, opt, o.LineMarkers, o.Path).Emit()
		}
		o2 := o
		o2.Optimize = opt
		fresh := Compile(c.Src, o2)
		if (err == nil) != (fresh.Err == nil) || (err == nil && out != fresh.Out) {
			return viol("emit-changes-program", "emit #%d (optimize=%v) of one parsed program differs from a separate compilation with the same options\n--- emitted\n%s\n--- separate compilation\n%s\n--- source\n%s", i+1, opt, clip(out, 3000), clip(fresh.Out, 3000), c.Src)
		}
	}
	return nil
}

// ---- (2) history independence: the same compilation run first in a fresh process ----

type C17History struct {
	Pool    []Comp `json:"pool"`
	History []int  `json:"history"`
}

func c17HistorySrc(c *C17History) string {
	var sb strings.Builder
	for _, i := range c.History {
		fmt.Fprintf(&sb, "--- compilation %d (opts %+v)\n%s\n", i, c.Pool[i].Opts, c.Pool[i].Src)
	}
	return sb.String()
}

var freshMu sync.Mutex
var freshCache = map[string]string{}

// freshResult compiles in a new process in which it is the first compilation.
func freshResult(c *Comp) (string, error) {
	raw, _ := json.Marshal(c)
	key := fmt.Sprintf("%x", sha256.Sum256(raw))
	freshMu.Lock()
	if r, ok := freshCache[key]; ok {
		freshMu.Unlock()
		return r, nil
	}
	freshMu.Unlock()
	f, err := os.CreateTemp("", "verif-c17-*.json")
	if err != nil {
		return "", err
	}
	defer os.Remove(f.Name())
	f.Write(raw)
	f.Close()
	cmd := exec.Command(os.Args[0], "-test.run", "^TestC17_Helper$")
	cmd.Env = append(os.Environ(), "VERIF_C17_HELPER="+f.Name(), "VERIF_SHARD_OUT=")
	out, err := cmd.Output()
	if err != nil {
		return "", fmt.Errorf("helper process: %v", err)
	}
	s := string(out)
	i := strings.Index(s, "<<<RESULT\n")
	j := strings.LastIndex(s, "\nRESULT>>>")
	if i < 0 || j < 0 {
		return "", fmt.Errorf("helper process: no result in %q", clip(s, 300))
	}
	res := s[i+len("<<<RESULT\n") : j]
	freshMu.Lock()
	freshCache[key] = res
	freshMu.Unlock()
	return res, nil
}

// TestC17_Helper is the fresh-process side: one compilation, the first of the process.
func TestC17_Helper(t *testing.T) {
	path := os.Getenv("VERIF_C17_HELPER")
	if path == "" {
		t.Skip("helper only")
	}
	b, err := os.ReadFile(path)
	if err != nil {
		t.Fatal(err)
	}
	var c Comp
	if err := json.Unmarshal(b, &c); err != nil {
		t.Fatal(err)
	}
	fmt.Printf("<<<RESULT\n%s\nRESULT>>>\n", c.run())
}

func checkC17History(c *C17History) *Violation {
	st := stat("C17")
	results := make([]string, len(c.History))
	for k, i := range c.History {
		results[k] = c.Pool[i].run()
	}
	optsets := map[string]bool{}
	failing := false
	for k, i := range c.History {
		fresh, err := freshResult(&c.Pool[i])
		if err != nil {
			panic("harness: " + err.Error())
		}
		if results[k] != fresh {
			return viol("history-dependent", "compilation #%d of the history gives a different result than the same compilation run first in a fresh process\n--- in history\n%s\n--- fresh process\n%s\n--- history\n%s", k, clip(results[k], 3000), clip(fresh, 3000), clip(c17HistorySrc(c), 6000))
		}
		optsets[fmt.Sprint(c.Pool[i].Opts)] = true
		if strings.HasPrefix(fresh, "ERROR") {
			failing = true
		}
	}
	st.Eval(c17HistorySrc(c), len(optsets) >= 2 && failing, func() any {
		return fmt.Sprintf("history of %d compilations over %d option sets", len(c.History), len(optsets))
	}, "history")
	st.Add("history_compilations", int64(len(c.History)))
	return nil
}

func genC17History(t *rapid.T) *C17History {
	c := &C17History{}
	np := rapid.IntRange(2, 5).Draw(t, "npool")
	for i := 0; i < np; i++ {
		c.Pool = append(c.Pool, Comp{Src: c17Program(t), Opts: c17Opts(t)})
	}
	c.History = rapid.SliceOfN(rapid.IntRange(0, np-1), 2, 12).Draw(t, "history")
	return c
}

// ---- (3) context independence ----

type C17Context struct {
	File *File `json:"file"`
}

func c17ContextSrc(c *C17Context) string { return Canon(c.File) }

var hoistedTokRe = regexp.MustCompile(`[^\s,]+_(Text|Movement)_\d+`)

// normalizeHoisted renames hoisted labels to names derived from their content and
// returns the non-blank lines of the code (without the hoisted definitions) and the set of defined content names.
func normalizeHoisted(out string) (code []string, defs map[string]bool) {
	a := ParseAsm(out)
	rename := map[string]string{}
	for l := range a.Labels {
		if isHoistedLabel(l) {
			rename[l] = fmt.Sprintf("H_%016x", hash64(strings.Join(rawLines(a.blockAfter(l)), "\n")))
		}
	}
	defs = map[string]bool{}
	skip := false
	for _, l := range a.Lines {
		if l.Label != "" {
			if n, ok := rename[l.Label]; ok {
				defs[n] = true
				skip = true
				continue
			}
			skip = false
		} else if l.BlankBefore {
			skip = false
		}
		if skip {
			continue
		}
		code = append(code, hoistedTokRe.ReplaceAllStringFunc(l.Raw, func(s string) string {
			if n, ok := rename[s]; ok {
				return n
			}
			return s
		}))
	}
	return
}

func containsRun(hay, needle []string) bool {
	if len(needle) == 0 {
		return true
	}
	for i := 0; i+len(needle) <= len(hay); i++ {
		ok := true
		for j := range needle {
			if hay[i+j] != needle[j] {
				ok = false
				break
			}
		}
		if ok {
			return true
		}
	}
	return false
}

func checkC17Context(c *C17Context) *Violation {
	st := stat("C17")
	src := Canon(c.File)
	o := Opts{Optimize: true, FontPath: "@repo", Auto: c16Auto}
	full := Compile(src, o)
	if full.Panic != nil || full.Budget {
		return viol("crash", "%s\n--- source\n%s", full.Describe(), src)
	}
	if full.Err != nil {
		// every statement accepted alone (names are unique across statements in the generated domain) but the file rejected?
		allAlone := true
		var cs []*Top
		for _, t := range c.File.Tops {
			if t.K == "const" {
				cs = append(cs, t)
				continue
			}
			if r := Compile(Canon(&File{Tops: append(append([]*Top{}, cs...), t)}), o); !r.OK() {
				allAlone = false
			}
		}
		if allAlone {
			return viol("file-rejected-parts-accepted", "every top-level statement compiles alone, but the file is rejected: %v\n--- file\n%s", full.Err, src)
		}
		st.Label("rejected")
		st.Note("last_rejection", clip(full.Err.Error()+"\n"+src, 800))
		return nil
	}
	fullCode, fullDefs := normalizeHoisted(full.Out)
	sharing := 0
	var consts []*Top
	for _, t := range c.File.Tops {
		if t.K == "const" {
			consts = append(consts, t)
			continue
		}
		alone := &File{Tops: append(append([]*Top{}, consts...), t)}
		asrc := Canon(alone)
		r := Compile(asrc, o)
		if !r.OK() {
			return viol("alone-rejected", "a statement that compiles inside the file is rejected when compiled alone: %s\n--- statement\n%s--- file\n%s", r.Describe(), asrc, src)
		}
		code, defs := normalizeHoisted(r.Out)
		if !containsRun(fullCode, code) {
			return viol("context-dependent", "the code emitted for a statement compiled alone does not occur (as one contiguous run, hoisted labels renamed by content) in the output of the whole file\n--- statement alone\n%s--- its output\n%s\n--- file\n%s--- output of the file\n%s", asrc, r.Out, src, full.Out)
		}
		for d := range defs {
			if !fullDefs[d] {
				return viol("hoisted-content-differs", "hoisted data of a statement compiled alone has no definition with the same content in the output of the whole file\n--- statement alone\n%s--- its output\n%s\n--- output of the file\n%s", asrc, r.Out, full.Out)
			}
		}
		if len(defs) > 0 {
			sharing++
		}
	}
	st.Eval(src, sharing >= 3, func() any { return clip(src, 900) }, "context")
	return nil
}

func genC17Context(t *rapid.T) *C17Context {
	cfg := DefaultFileCfg()
	cfg.CF.MaxDepth = 3
	cfg.CF.Auto = c16Auto
	cfg.CF.AutoP = 5
	cfg.MaxTops = 6
	f := GenFile(t, cfg)
	if rapid.Bool().Draw(t, "const") {
		f.Tops = append([]*Top{{K: "const", Const: &Const{Name: "A3", Val: []string{"7", "+", "1"}}}}, f.Tops...)
	}
	// a label spelled like a generated sub-label of another script is an ordinary label
	if scripts := f.Scripts(); len(scripts) >= 2 && rapid.IntRange(0, 2).Draw(t, "foreignsublabel") == 0 {
		a := rapid.IntRange(0, len(scripts)-1).Draw(t, "lblscript")
		b := (a + 1 + rapid.IntRange(0, len(scripts)-2).Draw(t, "lblother")) % len(scripts)
		st := sLabel(fmt.Sprintf("%s_%d", scripts[b].Name, rapid.IntRange(1, 6).Draw(t, "lbln")))
		pos := rapid.IntRange(0, len(scripts[a].Body.Stmts)).Draw(t, "lblpos")
		scripts[a].Body.Stmts = append(scripts[a].Body.Stmts[:pos], append([]*Stmt{st}, scripts[a].Body.Stmts[pos:]...)...)
	}
	// formatted texts that share words (also words with control codes whose width depends on the font)
	// under different fonts and line lengths: formatting one text must not depend on the others
	nf := rapid.IntRange(0, 3).Draw(t, "nformat")
	for i := 0; i < nf; i++ {
		words := rapid.SliceOfN(rapid.SampledFrom([]string{"{UP_ARROW}{UP_ARROW}{UP_ARROW}", "{PKMN}", "Press", "{DOWN_ARROW}x", "scroll", "to", "{PLAYER}!", "WWWW", "iiii", "{LEFT_ARROW}{RIGHT_ARROW}"}), 2, 9).Draw(t, "fwords")
		v := &TextVal{Lit: &StrLit{Parts: []string{strings.Join(words, " ")}}, Format: true}
		v.Params = []*FParam{{Val: rapid.SampledFrom([]string{`"1_latin_rse"`, `"1_latin_frlg"`}).Draw(t, "ffont")}, {Val: fmt.Sprint(rapid.IntRange(30, 110).Draw(t, "flen"))}}
		top := &Top{K: "text", Text: &TextStmt{Name: fmt.Sprintf("Fmt%c", 'A'+i), Val: v}}
		pos := rapid.IntRange(0, len(f.Tops)).Draw(t, "fpos")
		f.Tops = append(f.Tops[:pos], append([]*Top{top}, f.Tops[pos:]...)...)
	}
	// a constant defined somewhere in the middle; its name is used as a plain identifier before the definition
	// and as the constant after it: what a script compiles to depends on the definitions before it only
	if scs := f.Scripts(); len(scs) >= 2 && rapid.IntRange(0, 2).Draw(t, "lateconst") == 0 {
		for _, sc := range scs {
			if rapid.IntRange(0, 2).Draw(t, "uselate") != 0 {
				sc.Body.Stmts = append([]*Stmt{sCmd(&Cmd{Name: "uselate", Args: plainArgs("LATE_K", "1")})}, sc.Body.Stmts...)
			}
		}
		pos := rapid.IntRange(1, len(f.Tops)).Draw(t, "latepos")
		f.Tops = append(f.Tops[:pos], append([]*Top{{K: "const", Const: &Const{Name: "LATE_K", Val: []string{"5"}}}}, f.Tops[pos:]...)...)
	}
	// the same text formatted twice with the same font and length but other numLines / cursorOverlapWidth:
	// each statement is formatted with its own parameters
	if rapid.IntRange(0, 3).Draw(t, "formatpair") == 0 {
		lit := rapid.SampledFrom([]string{"Some longer text that needs wrapping when it is formatted for the box", "aaa bbb ccc ddd eee fff ggg hhh iii jjj kkk"}).Draw(t, "pairtext")
		ln := fmt.Sprint(rapid.SampledFrom([]int{30, 40, 60}).Draw(t, "pairlen"))
		mk := func(name string, extra ...*FParam) *Top {
			v := &TextVal{Lit: &StrLit{Parts: []string{lit}}, Format: true, Params: append([]*FParam{{Val: `"1_latin_frlg"`}, {Val: ln}}, extra...)}
			return &Top{K: "text", Text: &TextStmt{Name: name, Val: v}}
		}
		second := &FParam{Name: "numLines", Val: "3"}
		if rapid.Bool().Draw(t, "pairoverlap") {
			second = &FParam{Name: "cursorOverlapWidth", Val: "25"}
		}
		for i, top := range []*Top{mk("PairA", &FParam{Name: "numLines", Val: "2"}), mk("PairB", second)} {
			_ = i
			pos := rapid.IntRange(0, len(f.Tops)).Draw(t, "pairpos")
			f.Tops = append(f.Tops[:pos], append([]*Top{top}, f.Tops[pos:]...)...)
		}
	}
	// two scripts whose names differ by a trailing digit, the shorter one with two-digit sub-label numbers
	// (Route1_12 / Route11_2): every script's sub-labels are its own
	if rapid.IntRange(0, 3).Draw(t, "digitnames") == 0 {
		mk := func(name string, n int) *Top {
			b := &Block{}
			for i := 0; i < n; i++ {
				cond := eLeaf(&Leaf{Kind: "flag", Operand: []string{fmt.Sprintf("FLAG_R%d", i)}})
				b.Stmts = append(b.Stmts, &Stmt{K: "if", If: &If{Arms: []*Arm{{Cond: cond, Body: &Block{Stmts: []*Stmt{sCmd(&Cmd{Name: fmt.Sprintf("r%d", i)})}}}}}})
			}
			b.Stmts = append(b.Stmts, sCmd(&Cmd{Name: "release"}))
			return &Top{K: "script", Script: &Script{Name: name, Body: b}}
		}
		d := rapid.IntRange(1, 2).Draw(t, "digit")
		for _, top := range []*Top{mk("Route1", rapid.IntRange(4, 11).Draw(t, "longifs")), mk(fmt.Sprintf("Route1%d", d), rapid.IntRange(1, 4).Draw(t, "shortifs"))} {
			pos := rapid.IntRange(0, len(f.Tops)).Draw(t, "digitpos")
			f.Tops = append(f.Tops[:pos:pos], append([]*Top{top}, f.Tops[pos:]...)...)
		}
	}
	return &C17Context{File: f}
}

func init() {
	register("C17", "TestC17_Repeat", checkC17Repeat, c17RepeatSrc)
	register("C17", "TestC17_History", checkC17History, c17HistorySrc)
	register("C17", "TestC17_Context", checkC17Context, c17ContextSrc)
}

const c17Rule = "(1) repeatability: whole files (valid, and made invalid by deleting / replacing a token or truncating) under drawn option sets (optimize, line markers, switches, CLI line length, several font configs, unknown font ids whose error lists the font table, lint mode) are compiled 5 times in one process: byte-identical outputs / errors; one parsed program emitted three times (optimize off, on, off) gives the outputs of separate compilations; (2) history independence: a history of 2-12 compilations drawn from a pool of 2-5 (program, options) pairs is run in one process and every result must equal the result of the same compilation run FIRST in a fresh process (the test binary re-executes itself); (3) context independence: every top-level statement of a file is also compiled alone (with the constants before it); its code, with hoisted labels renamed by content, must occur as one contiguous run in the output of the whole file and every hoisted block it defines must exist there with the same content (files may hold a script pair named Route1 / Route1<d> with two-digit sub-label numbers in the shorter-named one). non-trivial = (1) >= 3 labelled blocks or an error, (2) >= 2 option sets and a failing compilation in the history, (3) >= 3 statements with hoisted data; distinct by input"

func TestC17_Regress(t *testing.T) { runRegress(t, "C17") }

func TestC17_Repeat(t *testing.T) {
	st := stat("C17")
	st.SetRule(c17Rule)
	st.Assume("map-order nondeterminism shows with probability 1 - 2^-k per affected case (5 repetitions, thousands of cases)")
	runRapid(t, "C17", "TestC17_Repeat", genC17Repeat, checkC17Repeat, c17RepeatSrc)
}

func TestC17_History(t *testing.T) {
	st := stat("C17")
	st.SetRule(c17Rule)
	runRapid(t, "C17", "TestC17_History", genC17History, checkC17History, c17HistorySrc)
}

func TestC17_Context(t *testing.T) {
	st := stat("C17")
	st.SetRule(c17Rule)
	runRapid(t, "C17", "TestC17_Context", genC17Context, checkC17Context, c17ContextSrc)
}
