package harness

import (
	"fmt"
	"regexp"
	"strings"

	"pgregory.net/rapid"
)

// Whole-file generator: any mix of top-level statements.

type FileCfg struct {
	CF        GenCfg
	MaxTops   int
	Texts     bool
	Movements bool
	Marts     bool
	Maps      bool
	Raws      bool
	Format    bool // inline / statement texts may use format()
	MultiPart bool // multi-part string literals
	Typed     bool // string types
}

func DefaultFileCfg() FileCfg {
	cf := DefaultCF()
	cf.InlineText = true
	return FileCfg{CF: cf, MaxTops: 6, Texts: true, Movements: true, Marts: true, Maps: true, Raws: true, Format: true, MultiPart: true, Typed: true}
}

var textPool = []string{"Hello", "Hello$", "Hi there$", "Hi there", "Bye now$", "Bye now", "A {PLAYER} appears", "é ß ü", `Line one\nLine two`, `Wait\pMore`, "x", "Some longer text that needs wrapping when it is formatted for the box", "Ends in dollar$", "100% sure", "5%% %s %d", "", "Two lines\n\t\tin one literal", "Two lines in one literal", "CR LF\r\n  inside", "CR LF inside", "Level 1", "Level 100", `Path C:\\`, "brailleHello", "customHello"}
var stepPool = []string{"walk_up", "walk_down", "walk_left", "face_right", "delay_16", "jump_2_up", "step_end", "slow_step_end"}
var itemPool = []string{"ITEM_POTION", "ITEM_ANTIDOTE", "ITEM_REPEL", "ITEM_NONE", "ITEM_POKE_BALL", "ITEM_RARE_CANDY"}
var stringTypes = []string{"ascii", "braille", "custom"}

type fileGen struct {
	t   *rapid.T
	cfg FileCfg
}

// litValue computes the lexer's literal for a string literal as the manual
// describes it: parts are joined by a newline; a line break written inside a
// part, together with the whitespace that follows it, becomes one space.
var nlRun = regexp.MustCompile(`[\r\n][ \t\r\n]*`)

func partValue(p string) string { return nlRun.ReplaceAllString(p, " ") }

func LitValue(s *StrLit) string {
	out := make([]string, len(s.Parts))
	for i, p := range s.Parts {
		out[i] = partValue(p)
	}
	return strings.Join(out, "\n")
}

// Terminated appends the terminator the statement of C09 requires.
func Terminated(v, typ string) string {
	var suffix string
	switch typ {
	case "", "braille":
		suffix = "$"
	case "ascii":
		suffix = `\0`
	default:
		return v
	}
	if strings.HasSuffix(v, suffix) {
		return v
	}
	return v + suffix
}

func (g *fileGen) strLit() *StrLit {
	t := g.t
	s := &StrLit{}
	n := 1
	if g.cfg.MultiPart && rapid.IntRange(0, 3).Draw(t, "multipart") == 0 {
		n = rapid.IntRange(2, 3).Draw(t, "nparts")
	}
	for i := 0; i < n; i++ {
		p := rapid.SampledFrom(textPool).Draw(t, "part")
		s.Parts = append(s.Parts, p)
		if i > 0 {
			s.Seps = append(s.Seps, rapid.SampledFrom([]string{"\n", " ", "\n\t\t", ""}).Draw(t, "partsep"))
		}
	}
	if g.cfg.Typed && rapid.IntRange(0, 4).Draw(t, "typed") == 0 {
		s.Type = rapid.SampledFrom(stringTypes).Draw(t, "stype")
	}
	return s
}

func (g *fileGen) textVal() *TextVal {
	v := &TextVal{Lit: g.strLit()}
	if g.cfg.Format && rapid.IntRange(0, 3).Draw(g.t, "format") == 0 {
		v.Format = true
		// few distinct lengths, so that the same text is often formatted twice with the same font and
		// length but another numLines / cursorOverlapWidth (they must not share a label unless the results agree)
		flen := func() string { return fmt.Sprint(rapid.SampledFrom([]int{40, 60, 100, 208}).Draw(g.t, "flen")) }
		switch rapid.IntRange(0, 5).Draw(g.t, "fparams") {
		case 0:
			v.Params = []*FParam{{Val: `"1_latin_rse"`}}
		case 1:
			v.Params = []*FParam{{Val: `"1_latin_frlg"`}, {Val: flen()}}
		case 2:
			v.Params = []*FParam{{Name: "numLines", Val: fmt.Sprint(rapid.IntRange(1, 3).Draw(g.t, "fnl"))}, {Name: "maxLineLength", Val: flen()}}
		case 3:
			v.Params = []*FParam{{Val: `"1_latin_frlg"`}, {Val: flen()}, {Name: "numLines", Val: fmt.Sprint(rapid.IntRange(1, 3).Draw(g.t, "fnl"))}}
			if rapid.Bool().Draw(g.t, "fov") {
				v.Params = append(v.Params, &FParam{Name: "cursorOverlapWidth", Val: fmt.Sprint(rapid.SampledFrom([]int{1, 10, 30}).Draw(g.t, "fovw"))})
			}
		}
	}
	return v
}

func (g *fileGen) steps(max int) []*Step {
	t := g.t
	n := rapid.IntRange(0, max).Draw(t, "nsteps")
	out := []*Step{}
	for i := 0; i < n; i++ {
		switch rapid.IntRange(0, 7).Draw(t, "stepkind") {
		case 0:
			out = append(out, &Step{Comma: true})
		case 1, 2:
			out = append(out, &Step{Name: rapid.SampledFrom(stepPool).Draw(t, "step"), Mul: fmt.Sprint(rapid.IntRange(1, 4).Draw(t, "mul"))})
		default:
			out = append(out, &Step{Name: rapid.SampledFrom(stepPool).Draw(t, "step")})
		}
	}
	return out
}

func (g *fileGen) items(max int) []*Item {
	n := rapid.IntRange(0, max).Draw(g.t, "nitems")
	out := []*Item{}
	for i := 0; i < n; i++ {
		out = append(out, &Item{Name: rapid.SampledFrom(itemPool).Draw(g.t, "item")})
	}
	return out
}

// decorate adds inline text / moves() arguments to some commands of a block
// (AutoVar commands in conditions included, unless their result var is an argument).
func (g *fileGen) decorate(b *Block) {
	walkCmdsOrdered(b, func(c *Cmd) {
		if c.Name == "end" || c.Name == "return" || c.Name == "goto" || strings.HasPrefix(c.Name, "goto_if_") {
			return
		}
		if spec, ok := g.cfg.CF.Auto[c.Name]; ok && spec.ArgPos != nil {
			return
		}
		switch rapid.IntRange(0, 6).Draw(g.t, "inline") {
		case 6:
			// two inline texts in one command, in either order of typed / untyped
			a, b := &Arg{Text: g.textVal()}, &Arg{Text: g.textVal()}
			if a.Text.Lit.Type == "" && b.Text.Lit.Type == "" {
				a.Text.Lit.Type = rapid.SampledFrom(stringTypes).Draw(g.t, "twotype")
			}
			if rapid.Bool().Draw(g.t, "twoorder") {
				a, b = b, a
			}
			c.Args = append(c.Args, a, b)
		case 0:
			a := &Arg{Text: g.textVal()}
			pos := rapid.IntRange(0, len(c.Args)).Draw(g.t, "inlinepos")
			c.Args = append(c.Args[:pos], append([]*Arg{a}, c.Args[pos:]...)...)
		case 1:
			a := &Arg{Moves: g.steps(4), IsMv: true}
			pos := rapid.IntRange(0, len(c.Args)).Draw(g.t, "inlinepos")
			c.Args = append(c.Args[:pos], append([]*Arg{a}, c.Args[pos:]...)...)
		}
	})
}

var mapTypes = []string{"MAP_SCRIPT_ON_LOAD", "MAP_SCRIPT_ON_TRANSITION", "MAP_SCRIPT_ON_RESUME", "MAP_SCRIPT_ON_FRAME_TABLE", "MAP_SCRIPT_ON_WARP_INTO_MAP_TABLE", "MAP_SCRIPT_ON_DIVE_WARP"}

// GenFile draws a whole file.
func GenFile(t *rapid.T, cfg FileCfg) *File {
	g := &fileGen{t: t, cfg: cfg}
	f := &File{}
	n := rapid.IntRange(1, cfg.MaxTops).Draw(t, "ntops")
	var kinds []string
	kinds = append(kinds, "script", "script", "script")
	if cfg.Texts {
		kinds = append(kinds, "text")
	}
	if cfg.Movements {
		kinds = append(kinds, "movement")
	}
	if cfg.Marts {
		kinds = append(kinds, "mart")
	}
	if cfg.Maps {
		kinds = append(kinds, "mapscripts")
	}
	if cfg.Raws {
		kinds = append(kinds, "raw")
	}
	counts := map[string]int{}
	nCmd := 0
	var allLabels []string
	var allGotos []*Cmd
	scope := func(k string) string {
		if rapid.IntRange(0, 2).Draw(t, "scoped") == 0 {
			return rapid.SampledFrom([]string{"global", "local"}).Draw(t, "scope")
		}
		return ""
	}
	body := func(prefix string, top int) *Block {
		cg := &genCtx{t: t, cfg: cfg.CF, prefix: prefix + "_", nCmd: &nCmd}
		b := cg.block(0, false, false, top, true)
		if cfg.CF.InlineText {
			g.decorate(b)
		}
		allLabels = append(allLabels, cg.labels...)
		allGotos = append(allGotos, cg.gotos...)
		return b
	}
	for i := 0; i < n; i++ {
		k := rapid.SampledFrom(kinds).Draw(t, "topkind")
		idx := counts[k]
		counts[k]++
		switch k {
		case "script":
			name := fmt.Sprintf("Scr%c", 'A'+idx)
			sc := &Script{Name: name, Scope: scope(k), Body: body(name, cfg.CF.TopStmts)}
			allLabels = append(allLabels, name)
			f.Tops = append(f.Tops, &Top{K: "script", Script: sc})
		case "text":
			f.Tops = append(f.Tops, &Top{K: "text", Text: &TextStmt{Name: fmt.Sprintf("Txt%c", 'A'+idx), Scope: scope(k), Val: g.textVal()}})
		case "movement":
			f.Tops = append(f.Tops, &Top{K: "movement", Movement: &Movement{Name: fmt.Sprintf("Mov%c", 'A'+idx), Scope: scope(k), Steps: g.steps(6)}})
		case "mart":
			f.Tops = append(f.Tops, &Top{K: "mart", Mart: &Mart{Name: fmt.Sprintf("Mart%c", 'A'+idx), Scope: scope(k), Items: g.items(5)}})
		case "raw":
			lines := rapid.IntRange(1, 3).Draw(t, "rawlines")
			var sb strings.Builder
			for l := 0; l < lines; l++ {
				if l > 0 {
					sb.WriteString("\n")
					if rapid.IntRange(0, 4).Draw(t, "rawblank") == 0 {
						sb.WriteString("\n") // a blank line in the middle of the block
					}
				}
				fmt.Fprintf(&sb, "\t.rawdata %d, %d", idx, l)
			}
			txt := sb.String()
			switch rapid.IntRange(0, 3).Draw(t, "rawpad") {
			case 0:
				txt = "\n" + txt + "\n"
			case 1:
				txt = txt + "\n\n"
			}
			f.Tops = append(f.Tops, &Top{K: "raw", Raw: &Raw{Text: txt}})
		case "mapscripts":
			name := fmt.Sprintf("Map%c", 'A'+idx)
			ms := &MapScripts{Name: name, Scope: scope(k)}
			types := rapid.Permutation(mapTypes).Draw(t, "mstypes")
			ne := rapid.IntRange(0, 4).Draw(t, "nentries")
			for e := 0; e < ne; e++ {
				en := &MSEntry{Type: types[e]}
				switch rapid.IntRange(0, 2).Draw(t, "entrykind") {
				case 0:
					en.Kind = "plain"
					en.Label = fmt.Sprintf("%s_Handler%d", name, e)
				case 1:
					en.Kind = "inline"
					en.Body = body(name+"_"+en.Type, 3)
				default:
					en.Kind = "table"
					nr := rapid.IntRange(0, 3).Draw(t, "nrows")
					for r := 0; r < nr; r++ {
						row := &MSRow{Var: []string{fmt.Sprintf("VAR_TEMP_%d", r)}, Val: []string{fmt.Sprint(rapid.IntRange(0, 3).Draw(t, "rowval"))}}
						if rapid.Bool().Draw(t, "rowinline") {
							row.Body = body(fmt.Sprintf("%s_%s_%d", name, en.Type, r), 3)
						} else {
							row.Label = fmt.Sprintf("%s_Row%dx%d", name, e, r)
						}
						en.Rows = append(en.Rows, row)
					}
				}
				ms.Entries = append(ms.Entries, en)
			}
			f.Tops = append(f.Tops, &Top{K: "mapscripts", Map: ms})
		}
	}
	resolveGotos(allGotos, allLabels)
	return f
}
