package harness

import (
	"fmt"
	"sort"
	"strings"
	"testing"

	"pgregory.net/rapid"
)

// C01: structured control flow is lowered to gotos without changing behaviour.

type C01Case struct {
	File     *File             `json:"file"`
	Worlds   []uint64          `json:"worlds"`
	Auto     AutoCfg           `json:"auto,omitempty"`
	Switches map[string]string `json:"switches,omitempty"`
}

func c01Src(c *C01Case) string { return CanonMaybeDense(c.File) }

func hasLoopOrSwitch(b *Block) (yes bool, ifDepth int) {
	var rec func(b *Block, d int)
	rec = func(b *Block, d int) {
		for _, s := range b.Stmts {
			switch s.K {
			case "while", "dowhile", "switch":
				yes = true
			}
			switch s.K {
			case "if":
				if d+1 > ifDepth {
					ifDepth = d + 1
				}
				for _, a := range s.If.Arms {
					rec(a.Body, d+1)
				}
				if s.If.Else != nil {
					rec(s.If.Else, d+1)
				}
			case "while":
				rec(s.While.Body, d)
			case "dowhile":
				rec(s.Do.Body, d)
			case "switch":
				for _, c := range s.Switch.Cases {
					rec(c.Body, d)
				}
			}
		}
	}
	rec(b, 0)
	return
}

// diffExec compares the reference run of the model with the run of the emitted
// assembly for every entry and world, for one optimize setting.
func diffExec(f *File, auto AutoCfg, out string, worlds []*World, label string) (*Violation, map[string]int) {
	ref := NewRef(f, auto)
	a := ParseAsm(out)
	names, _ := EntryBlocks(f)
	distinct := map[string]int{}
	for _, name := range names {
		seen := map[string]bool{}
		for _, w := range worlds {
			want := ref.Run(name, w)
			got := a.Run(name, w)
			seen[want.String()] = true
			if want.String() != got.String() {
				return viol("behaviour", "%s world=%d entry=%s\nwant %s\ngot  %s\n--- output\n%s", label, w.Seed, name, want, got, out), nil
			}
		}
		distinct[name] = len(seen)
	}
	return nil, distinct
}

func dupLabels(out string) string {
	a := ParseAsm(out)
	var d []string
	for n, defs := range a.Labels {
		if len(defs) > 1 {
			d = append(d, n)
		}
	}
	sort.Strings(d)
	return strings.Join(d, ",")
}

func checkC01(c *C01Case) *Violation {
	st := stat("C01")
	src := c01Src(c)
	var worlds []*World
	for _, s := range c.Worlds {
		worlds = append(worlds, &World{Seed: s})
	}
	nontrivial := false
	for _, opt := range []bool{false, true} {
		res := CompileMaybeLM(src, Opts{Optimize: opt, Auto: c.Auto, Switches: c.Switches})
		if !res.OK() {
			if res.Panic != nil || res.Budget {
				return viol("crash", "opt=%v %s\n--- source\n%s", opt, res.Describe(), src)
			}
			// an unexpected rejection is not C01's subject; it is counted and reported in the evidence
			st.Label("rejected")
			st.Note("last_rejection", clip(res.Err.Error()+"\n"+src, 600))
			return nil
		}
		model := c.File
		if c.Switches != nil {
			r, ok := Resolve(model, c.Switches)
			if !ok {
				panic("harness: C01 poryswitches always have a fallback")
			}
			model = r
		}
		v, distinct := diffExec(model, c.Auto, res.Out, worlds, fmt.Sprintf("opt=%v", opt))
		if v != nil {
			v.Detail += "\n--- source\n" + src
			return v
		}
		_, blocks := EntryBlocks(model)
		for name, n := range distinct {
			yes, d := hasLoopOrSwitch(blocks[name])
			if (yes || d >= 2) && n >= 2 {
				nontrivial = true
			}
		}
	}
	st.Eval(src, nontrivial, func() any { return clip(src, 1500) })
	return nil
}

func genC01(t *rapid.T) *C01Case {
	cfg := DefaultCF()
	cfg.MaxDepth = pick(4, 6)
	cfg.CondGoto = true
	n := rapid.IntRange(1, 3).Draw(t, "nscripts")
	if rapid.IntRange(0, 4).Draw(t, "withauto") == 0 {
		// conditions and switches on AutoVar commands: the command is part of the sequence of commands performed
		cfg.Auto = genAutoCfg(t)
		cfg.AutoP = 3
	}
	withPS := rapid.IntRange(0, 5).Draw(t, "withps") == 0
	if withPS {
		// control flow inside statement poryswitch cases (selected, fallback, explicitly empty, unselected;
		// colon and brace form): the program behaves like the one with the selected cases written out
		cfg.PS = 6
		cfg.PSNoDirectContinue = true
		cfg.PSNestedFallback = true
		cfg.PSAlwaysFallback = true
	}
	c := &C01Case{File: GenScripts(t, cfg, n), Auto: cfg.Auto}
	if withPS {
		c.Switches = map[string]string{"V": rapid.SampledFrom([]string{"A", "B", "1", "zz"}).Draw(t, "swV"), "W": rapid.SampledFrom([]string{"A", "B", "q"}).Draw(t, "swW")}
	}
	nw := pick(8, 24)
	base := rapid.Uint64Range(1, 1<<40).Draw(t, "world")
	for i := 0; i < nw; i++ {
		c.Worlds = append(c.Worlds, base+uint64(i))
	}
	return c
}

func init() {
	register("C01", "TestC01_Diff", checkC01, c01Src)
}

func TestC01_Regress(t *testing.T) { runRegress(t, "C01") }

func TestC01_Diff(t *testing.T) {
	st := stat("C01")
	st.SetRule("files of 1-3 scripts drawn from the control-flow grammar (if/elif/else, while, condition-less while, do-while, break, continue, switch, end/return, labels, gotos incl. cross-script and hand-written goto_if_set / goto_if_unset commands; in one file in six the statements sit in statement poryswitch cases; in one file in five a third of the condition leaves and switch operands are AutoVar commands), depth<=4 (thorough 6), compiled with optimize off and on and executed from every script entry under 8 (thorough 24) hashed worlds against the reference interpreter; non-trivial = an entry whose script has a loop, a switch or an if nested >= 2 deep AND whose worlds produced >= 2 different outcomes; distinct by source text")
	st.Assume("flag/var/trainer tests are side-effect free; world state is a function of the number of commands executed", "call is an opaque command; of the hand-written jump macros goto, goto_if_set and goto_if_unset are modelled as jumps", "60-command horizon per run")
	runRapid(t, "C01", "TestC01_Diff", genC01, checkC01, c01Src)
}
