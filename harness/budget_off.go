//go:build !verif

package harness

func setBudget(n int64) {}

func isBudgetPanic(r any) bool { return false }

const hooksEnabled = false
