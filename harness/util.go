package harness

import "sort"

func sortStrings(s []string) { sort.Strings(s) }

func sortedKeys[V any](m map[string]V) []string {
	k := make([]string, 0, len(m))
	for x := range m {
		k = append(k, x)
	}
	sort.Strings(k)
	return k
}
