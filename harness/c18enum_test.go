package harness

import (
	"fmt"
	"strings"
	"testing"
)

// TestC18_Enum: the complete one-edit neighbourhood of a set of small valid programs, one per
// syntactic production. Random mutation reaches a particular "empty operand" or "missing token"
// shape only by chance; this enumeration reaches each of them in every run.
//
// Templates are written with single blanks between tokens; '~' stands for a blank inside a token.
var c18Templates = []string{
	`script S { c }`,
	`script(global) S { c(A, 1) d() }`,
	`script S { if (flag(A)) { c } }`,
	`script S { if (!flag(A)) { c } elif (var(V) == 2) { d } else { e } }`,
	`script S { if (var(V) >= value(0x4000)) { c } }`,
	`script S { if (defeated(T) && (flag(A) || !var(V))) { c } }`,
	`script S { if (flag(A) == true) { c } }`,
	`script S { if (random(4) == 2) { c } }`,
	`script S { if (!specialvar(VAR_X, F) || specialvar(VAR_Y, G) != 1) { c } }`,
	`script S { while (var(V) < 3) { c continue } }`,
	`script S { while { c break } }`,
	`script S { do { c } while (flag(A)) }`,
	`script S { switch (var(V)) { case 1: c case 2: default: d break } }`,
	`script S { switch (random(3)) { case 0: c } }`,
	`script S { L: goto(L) L2(global): end }`,
	`script S { c("txt") d(format("a~b~c", "1_latin_rse", 30)) }`,
	`script S { c(format("a~b", 30, "1_latin_rse")) }`,
	`script S { c(format("a~b", fontId = "1_latin_rse", maxLineLength = 30, numLines = 2, cursorOverlapWidth = 1)) }`,
	`script S { c(ascii"x", moves(a * 2 b, step_end)) }`,
	`script S { poryswitch(V) { A { c } B: d _: e } }`,
	`script S { while (flag(A)) { poryswitch(V) { A { continue } _ { } } } }`,
	`text T { "txt" }`,
	`text(local) T { format("a~b", 10) }`,
	`text T { poryswitch(V) { A: "x" _ { ascii"y" } } }`,
	`text T { "a" "b" }`,
	`movement M { a * 3 b , c step_end }`,
	`movement(global) M { poryswitch(V) { A { a * 2 } _: b } }`,
	`mart K { A B ITEM_NONE C }`,
	`mart K { poryswitch(V) { A { X } _: Y } }`,
	`mapscripts M { T1: L T2 { c } T3 [ VAR_A, 1: L2 VAR_B, 2 { d } ] }`,
	`mapscripts(local) M { }`,
	"raw `x`",
	`const C = 1 + 2 script S { c(C) if (var(C) == C) { d } }`,
	`const C = D const C2 = (C) mart K { C }`,
	`script S { if (flag(A)) { if (flag(B)) { c } else { while (flag(C)) { d } } } e }`,
	// near misses (already ill-formed): their neighbourhood holds the shapes that need two edits from a valid program
	`script S { switch (random(3)) foo }`,
	`script S { switch (var(V)) foo }`,
	`script S { if (random(2) == 1) foo }`,
	`script S { while (flag(A)) foo bar }`,
	`script S { do { c } while flag(A) }`,
	`text T { format("a~b", "1_latin_rse" 30) }`,
	`mapscripts M { T3 [ VAR_A, 1 L2 ] }`,
}

var c18EditWords = []string{"(", ")", "{", "}", "[", "]", ",", ":", "*", "=", "==", "!", "&&", "||", `"`, "`", "value()", "value(", "0", "-1", "99999999999999999999", "9223372036854775807", "4000000000000", "٣", "_", "poryswitch", "format", "case", "default", "if", "while", "continue", "break", "script", "text", "const", "global", "�", "\x00", "#", "/*", "/*/", `"bogus"`, `"TEST"`}

// c18Tokens splits a template into its tokens (brackets and commas glued to words are split off).
func c18Tokens(tpl string) []string {
	var out []string
	for _, w := range strings.Fields(tpl) {
		cur := ""
		inStr := false
		flush := func() {
			if cur != "" {
				out = append(out, strings.ReplaceAll(cur, "~", " "))
				cur = ""
			}
		}
		for _, r := range w {
			if r == '"' {
				inStr = !inStr
				cur += string(r)
				if !inStr {
					flush()
				}
				continue
			}
			if !inStr && strings.ContainsRune("(){}[],:", r) {
				flush()
				out = append(out, string(r))
				continue
			}
			cur += string(r)
		}
		flush()
	}
	return out
}

func TestC18_Enum(t *testing.T) {
	st := stat("C18")
	st.SetRule(c18Rule)
	activateKnown("C18")
	defer flushFail("C18", "TestC18_Robust")
	flagSets := []uint32{0, 1 | 2 | 4 | 1<<3 | 1<<11}
	if thorough() {
		flagSets = append(flagSets, 2<<3|1<<5, 1|2<<5|1<<7, 3<<5|1<<12|2<<7)
	}
	idx, count := 0, 0
	try := func(toks []string) {
		idx++
		if idx%shardCount() != shardIdx() || t.Failed() {
			return
		}
		for fi, fl := range flagSets {
			sep := " "
			if fi%2 == 1 {
				sep = "\n"
			}
			count++
			c := &C18Case{Src: strings.Join(toks, sep), Flags: fl}
			if !runCase(t, "C18", "TestC18_Robust", c, checkC18, c18Src) {
				t.Fail()
				return
			}
		}
	}
	with := func(toks []string, i int, del int, ins ...string) []string {
		out := append([]string{}, toks[:i]...)
		out = append(out, ins...)
		return append(out, toks[i+del:]...)
	}
	for _, tpl := range c18Templates {
		toks := c18Tokens(tpl)
		try(toks)
		for i := range toks {
			try(with(toks, i, 1))          // delete
			try(toks[:i])                  // truncate
			try(with(toks, i, 0, toks[i])) // duplicate
			if i+1 < len(toks) {
				try(with(toks, i, 2, toks[i+1], toks[i])) // swap with the next token
			}
			if strings.Contains("({[", toks[i]) { // empty the bracket group that opens here
				depth := 0
				for k := i; k < len(toks); k++ {
					if len(toks[k]) == 1 && strings.Contains("({[", toks[k]) {
						depth++
					} else if len(toks[k]) == 1 && strings.Contains(")}]", toks[k]) {
						depth--
						if depth == 0 {
							if k > i+1 {
								try(with(toks, i+1, k-i-1))
							}
							try(with(toks, i, k-i+1)) // the whole group, brackets included
							break
						}
					}
				}
			}
			for _, w := range c18EditWords {
				try(with(toks, i, 1, w)) // replace
				try(with(toks, i, 0, w)) // insert before
			}
		}
	}
	st.Add("enumerated_one_edit_neighbours", int64(count))
	st.Done(fmt.Sprintf("every single-token deletion, duplication, adjacent swap, truncation, bracket-group emptying and removal, and replacement by / insertion of each of %d hostile words, of %d template programs (one per production), under %d option sets", len(c18EditWords), len(c18Templates), len(flagSets)), !t.Failed())
}
