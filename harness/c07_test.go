package harness

import (
	"encoding/json"
	"fmt"
	"strings"
	"testing"

	"github.com/huderlem/poryscript/parser"
	"pgregory.net/rapid"
)

// C07: format() only turns spaces into line breaks, and every line fits the box.

// FItem is one item of a text: a word or an explicit break code, preceded by Sp spaces.
type FItem struct {
	W   string `json:"w,omitempty"`
	Brk string `json:"brk,omitempty"` // \n \l \p \N
	Sp  int    `json:"sp,omitempty"`
	NL  bool   `json:"nl,omitempty"` // the separator before the item is a line break character (formats like one space)
}

type FFont struct {
	Widths  map[string]int `json:"widths"`
	MaxLen  int            `json:"maxLineLength"`
	Lines   int            `json:"numLines"`
	Overlap int            `json:"cursorOverlapWidth"`
}

type C07Case struct {
	Items   []FItem `json:"items"`
	Font    FFont   `json:"font"`
	FontID  string  `json:"fontid"` // "F" (generated table) or "TEST"
	MaxLen  int     `json:"maxlen"`
	Lines   int     `json:"lines"`
	Overlap int     `json:"overlap"`
	// plumbing variant (through the compiler); 0 = direct FormatText call only
	Plumb int `json:"plumb,omitempty"`
	// Seq: the FontConfig is used for another call (other font) before the checked one
	Seq bool `json:"seq,omitempty"`
}

func (c *C07Case) text() string {
	var sb strings.Builder
	for _, it := range c.Items {
		if it.NL {
			sb.WriteString("\n")
		} else {
			sb.WriteString(strings.Repeat(" ", it.Sp))
		}
		sb.WriteString(it.W + it.Brk)
	}
	return sb.String()
}

func c07Src(c *C07Case) string {
	return fmt.Sprintf("format(%q) font=%s max=%d lines=%d overlap=%d plumb=%d", c.text(), c.FontID, c.MaxLen, c.Lines, c.Overlap, c.Plumb)
}

// ---- the harness' own width function and word splitting ----

func (c *C07Case) glyph(s string) int {
	if c.FontID == "TEST" {
		if strings.HasPrefix(s, "{") {
			return 100
		}
		return 10
	}
	if w, ok := c.Font.Widths[s]; ok {
		return w
	}
	if w, ok := c.Font.Widths["default"]; ok {
		return w
	}
	return 0
}

func (c *C07Case) width(word string) int {
	w := 0
	for i := 0; i < len(word); {
		if word[i] == '{' {
			j := strings.IndexByte(word[i:], '}')
			if j >= 0 {
				w += c.glyph(word[i : i+j+1])
				i += j + 1
				continue
			}
		}
		r := []rune(word[i:])[0]
		w += c.glyph(string(r))
		i += len(string(r))
	}
	return w
}

// splitLine splits an output line into words (spaces inside {..} do not split).
func splitLine(line string) []string {
	var words []string
	var cur strings.Builder
	depth := 0
	for _, r := range line {
		switch {
		case r == '{':
			depth++
			cur.WriteRune(r)
		case r == '}':
			if depth > 0 {
				depth--
			}
			cur.WriteRune(r)
		case r == ' ' && depth == 0:
			if cur.Len() > 0 {
				words = append(words, cur.String())
				cur.Reset()
			} else {
				words = append(words, "") // double space: reported by the caller
			}
		default:
			cur.WriteRune(r)
		}
	}
	if cur.Len() > 0 {
		words = append(words, cur.String())
	}
	return words
}

// normalised items: adjacent words glued together are one word
func (c *C07Case) normItems() []FItem {
	var out []FItem
	for _, it := range c.Items {
		if it.W != "" && it.Sp == 0 && !it.NL && len(out) > 0 && out[len(out)-1].W != "" {
			out[len(out)-1].W += it.W
			continue
		}
		if it.W == "" && it.Brk == "" {
			continue
		}
		out = append(out, it)
	}
	return out
}

// refFormat is the harness' greedy reference formatter for cursor overlap 0.
func (c *C07Case) refFormat() string {
	var out, line strings.Builder
	width, idx := 0, 0
	space := c.glyph(" ")
	flush := func(code string) {
		out.WriteString(line.String())
		out.WriteString(code)
		out.WriteString("\n")
		line.Reset()
		width = 0
	}
	auto := func() string {
		if idx < c.Lines-1 {
			return `\n`
		}
		return `\l`
	}
	for _, it := range c.normItems() {
		if it.Brk != "" {
			code := it.Brk
			if code == `\N` {
				code = auto()
			}
			flush(code)
			if it.Brk == `\p` {
				idx = 0
			} else {
				idx++
			}
			continue
		}
		w := c.width(it.W)
		if line.Len() == 0 {
			line.WriteString(it.W)
			width = w
			continue
		}
		if width+space+w > c.MaxLen {
			flush(auto())
			idx++
			line.WriteString(it.W)
			width = w
			continue
		}
		line.WriteString(" " + it.W)
		width += space + w
	}
	out.WriteString(line.String())
	return out.String()
}

// envelope checks the clauses of C07 that hold for any cursor overlap.
func (c *C07Case) envelope(got string) (v *Violation, inserted int, tight bool) {
	items := c.normItems()
	lines := strings.Split(got, "\n")
	pos := 0 // next input item
	idx := 0 // line index inside the paragraph
	space := c.glyph(" ")
	prevWidth := 0
	for li, ln := range lines {
		code := ""
		body := ln
		if li < len(lines)-1 {
			if len(ln) < 2 || ln[len(ln)-2] != '\\' || !strings.ContainsRune("nlp", rune(ln[len(ln)-1])) {
				return viol("line-without-break-code", "output line %d %q does not end in a break code", li, ln), 0, false
			}
			code = ln[len(ln)-2:]
			body = ln[:len(ln)-2]
		}
		words := splitLine(body)
		lineWidth := 0
		for wi, w := range words {
			if w == "" {
				return viol("spacing", "output line %d %q has irregular spacing", li, ln), 0, false
			}
			if pos >= len(items) || items[pos].W != w {
				want := "<end of text>"
				if pos < len(items) {
					want = items[pos].W + items[pos].Brk
				}
				return viol("words-changed", "output line %d: word %q where the source has %q next (words lost, duplicated, split or reordered)", li, w, want), 0, false
			}
			pos++
			if wi > 0 {
				lineWidth += space
			}
			lineWidth += c.width(w)
		}
		if strings.HasPrefix(body, " ") || strings.HasSuffix(body, " ") {
			return viol("spacing", "output line %d %q starts or ends with a space", li, ln), 0, false
		}
		// width bound
		if len(words) >= 2 {
			limit := c.MaxLen
			prompt := code == `\p` || (code == `\l` && idx >= c.Lines-1)
			if prompt {
				limit -= c.Overlap
			}
			if lineWidth > limit {
				return viol("line-too-wide", "output line %d %q is %d pixels wide, limit %d (maxLineLength %d, cursor overlap %d reserved: %v)", li, ln, lineWidth, limit, c.MaxLen, c.Overlap, prompt), 0, false
			}
			if lineWidth >= limit-1 {
				tight = true
			}
		}
		// necessity of an inserted break before the first word of this line
		if li > 0 && len(words) > 0 && pos-len(words) >= 1 && items[pos-len(words)-1].W != "" {
			// the previous output line ended with an inserted break (the source had a space there)
			first := c.width(words[0])
			need := prevWidth + space + first
			lenient := need + c.Overlap
			exact := idx-1 < c.Lines-1 && !(pos-len(words)+1 < len(items) && items[pos-len(words)+1].Brk == `\p`)
			if exact && need <= c.MaxLen {
				return viol("unnecessary-break", "word %q was moved to line %d although it fits on the previous line (%d + space %d + %d = %d <= %d)", words[0], li, prevWidth, space, first, need, c.MaxLen), 0, false
			}
			if lenient <= c.MaxLen {
				return viol("unnecessary-break", "word %q was moved to line %d although it fits on the previous line even with the cursor overlap (%d <= %d)", words[0], li, lenient, c.MaxLen), 0, false
			}
		}
		// the break code that ends this line
		if code != "" {
			autoCode := `\n`
			if idx >= c.Lines-1 {
				autoCode = `\l`
			}
			if pos < len(items) && items[pos].Brk != "" {
				want := items[pos].Brk
				if want == `\N` {
					want = autoCode
				}
				if code != want {
					return viol("break-code", "output line %d ends in %s, the source has %s there (line index %d of the paragraph, numLines %d)", li, code, items[pos].Brk, idx, c.Lines), 0, false
				}
				pos++
			} else {
				// inserted break
				if len(words) == 0 {
					return viol("break-inserted-at-nonspace", "output line %d is an inserted break with no word", li), 0, false
				}
				if code != autoCode {
					return viol("break-discipline", "inserted break at the end of output line %d is %s, expected %s (line index %d of the paragraph, numLines %d)", li, code, autoCode, idx, c.Lines), 0, false
				}
				inserted++
			}
			if code == `\p` {
				idx = 0
			} else {
				idx++
			}
		}
		prevWidth = lineWidth
	}
	if pos != len(items) {
		return viol("words-lost", "the output ends after %d of %d source items (next: %q)", pos, len(items), items[pos].W+items[pos].Brk), 0, false
	}
	return nil, inserted, tight
}

func (c *C07Case) fontConfig() *parser.FontConfig {
	fc := &parser.FontConfig{DefaultFontID: "F", Fonts: map[string]parser.Fonts{
		"F": {Widths: c.Font.Widths, CursorOverlapWidth: c.Font.Overlap, MaxLineLength: c.Font.MaxLen, NumLines: c.Font.Lines},
		"G": {Widths: map[string]int{"default": 1}, MaxLineLength: 9999, NumLines: 9, CursorOverlapWidth: 0},
	}}
	return fc
}

func (c *C07Case) fontJSON() string {
	b, _ := json.Marshal(map[string]any{"defaultFontId": "F", "fonts": map[string]any{
		"F": c.Font,
		"G": FFont{Widths: map[string]int{"default": 1}, MaxLen: 9999, Lines: 9},
	}})
	return string(b)
}

func checkC07(c *C07Case) *Violation {
	st := stat("C07")
	text := c.text()
	var got string
	if c.Plumb == 0 {
		var err error
		got, err = func() (s string, e error) {
			defer func() {
				if r := recover(); r != nil {
					e = fmt.Errorf("PANIC: %v", r)
				}
			}()
			fc := c.fontConfig()
			if c.Seq {
				// the same FontConfig object has already formatted this very text with another font:
				// a formatter that keeps state per FontConfig must not let that influence this call
				fc.FormatText(text, c.MaxLen+3, 0, "G", 2)
			}
			return fc.FormatText(text, c.MaxLen, c.Overlap, c.FontID, c.Lines)
		}()
		if err != nil {
			return viol("format-error", "FormatText failed: %v\n%s", err, c07Src(c))
		}
	} else {
		// through the compiler, with the parameters given by one of several routes
		v, out := c.viaCompiler()
		if v != nil {
			return v
		}
		got = out
	}
	detail := func(v *Violation) *Violation {
		v.Detail += fmt.Sprintf("\n%s\n--- output\n%s", c07Src(c), got)
		return v
	}
	if c.Overlap == 0 {
		if want := c.refFormat(); got != want {
			return detail(viol("differs-from-reference", "cursor overlap 0: the output differs from the greedy reference\n--- reference\n%s", want))
		}
	}
	v, inserted, tight := c.envelope(got)
	if v != nil {
		return detail(v)
	}
	st.Eval(c07Src(c), inserted >= 1 && tight, func() any { return map[string]any{"case": c07Src(c), "output": got} }, fmt.Sprintf("inserted=%d", min(inserted, 4)), fmt.Sprintf("plumb=%d", c.Plumb))
	return nil
}

// viaCompiler formats the text through text T { format(...) } with the
// parameters given positionally, by name, by font config or by CLI default.
func (c *C07Case) viaCompiler() (*Violation, string) {
	lit := `"` + c.text() + `"`
	if (len(c.Items)+c.Plumb)%2 == 0 {
		lit = strings.ReplaceAll(lit, "\n", "\r\n") // the same literal in a file with CRLF line ends
	}
	o := Opts{FontJSON: c.fontJSON()}
	font := c.Font
	var params []string
	// numbers may be written in hex (the case seed decides, deterministically)
	num := func(v int) string {
		if v > 0 && (v+c.Plumb+len(c.Items))%3 == 0 {
			return fmt.Sprintf("0x%X", v)
		}
		return fmt.Sprint(v)
	}
	named := func(k string, v any) string {
		if n, ok := v.(int); ok {
			return fmt.Sprintf("%s=%s", k, num(n))
		}
		return fmt.Sprintf("%s=%v", k, v)
	}
	switch c.Plumb {
	case 1: // everything from the font config (numLines/overlap/maxLen of font F)
		font.MaxLen, font.Lines, font.Overlap = c.MaxLen, c.Lines, c.Overlap
	case 2: // positional font id + length, rest named
		params = []string{`"F"`, num(c.MaxLen), named("numLines", c.Lines), named("cursorOverlapWidth", c.Overlap)}
	case 3: // positional length + font id
		params = []string{num(c.MaxLen), `"F"`, named("cursorOverlapWidth", c.Overlap), named("numLines", c.Lines)}
	case 4: // all named, in some order
		params = []string{named("numLines", c.Lines), named("maxLineLength", c.MaxLen), named("fontId", `"F"`), named("cursorOverlapWidth", c.Overlap)}
	case 5: // CLI defaults for font and length, config for the rest; the config's default font is another one
		o.FontID, o.MaxLen = "F", c.MaxLen
		font.Lines, font.Overlap = c.Lines, c.Overlap
		font.MaxLen = c.MaxLen + 17
	case 6: // length positional only, font from the config default
		params = []string{fmt.Sprint(c.MaxLen)}
		font.Lines, font.Overlap = c.Lines, c.Overlap
	case 7: // only a named fontId: every other setting must come from THAT font, not from the default font
		params = []string{named("fontId", `"F"`)}
		font.MaxLen, font.Lines, font.Overlap = c.MaxLen, c.Lines, c.Overlap
	case 8: // positional fontId only
		params = []string{`"F"`}
		font.MaxLen, font.Lines, font.Overlap = c.MaxLen, c.Lines, c.Overlap
	}
	if c.FontID == "TEST" {
		return nil, ""
	}
	// distractors: whatever the call itself says wins over the command-line defaults
	if (len(c.Items)+c.MaxLen)%2 == 0 {
		switch c.Plumb {
		case 2, 3, 4, 6:
			o.MaxLen = c.MaxLen + 40
			if c.MaxLen%3 == 0 && c.MaxLen > 8 {
				o.MaxLen = c.MaxLen - 7
			}
		}
		switch c.Plumb {
		case 2, 3, 4:
			o.FontID = "G"
		}
	}
	if c.Overlap == 0 && (c.Plumb == 2 || c.Plumb == 3 || c.Plumb == 4) {
		// a named cursorOverlapWidth of 0 means "use the font's": make the font agree
		font.Overlap = 0
	}
	cc := *c
	cc.Font = font
	o.FontJSON = cc.fontJSON()
	if c.Plumb == 5 || c.Plumb == 7 || c.Plumb == 8 {
		// default font of the config is G; F is selected by the CLI default / the fontId parameter
		o.FontJSON = strings.Replace(o.FontJSON, `"defaultFontId":"F"`, `"defaultFontId":"G"`, 1)
	}
	src := "text T {\n\tformat(" + lit
	for _, p := range params {
		src += ", " + p
	}
	src += ")\n}\n"
	res := Compile(src, o)
	if !res.OK() {
		return viol("format-rejected", "%s\n--- source\n%s--- font config\n%s", res.Describe(), src, o.FontJSON), ""
	}
	a := ParseAsm(res.Out)
	var lines []string
	for _, l := range a.blockAfter("T") {
		if l.Op != ".string" || len(l.Rest) < 2 {
			return viol("format-directive", "unexpected line %q\n--- source\n%s", l.Raw, src), ""
		}
		lines = append(lines, l.Rest[1:len(l.Rest)-1])
	}
	out := strings.Join(lines, "\n")
	if !strings.HasSuffix(out, "$") {
		return viol("format-terminator", "formatted text does not end in $: %q\n--- source\n%s", out, src), ""
	}
	out = strings.TrimSuffix(out, "$")
	return nil, out
}

// ---- generator ----

var c07Letters = []string{"a", "b", "c", "i", "m", "W", "n", "l", "p", "N", `\e`, "\u00a0", "\u3000", "i\ta", "é", "ß", "日", ".", ",", "!", "'", "-", "0", "1", "}"}
var c07Codes = []string{"{PLAYER}", "{COLOR RED}", "{STR_VAR_1}", "{PAUSE 10}", "{PKMN}"}

func genC07(t *rapid.T) *C07Case {
	c := &C07Case{FontID: "F"}
	if rapid.IntRange(0, 9).Draw(t, "testfont") == 0 {
		c.FontID = "TEST"
	}
	// font table
	c.Font.Widths = map[string]int{}
	for _, l := range c07Letters {
		if rapid.IntRange(0, 4).Draw(t, "hasw") != 0 {
			c.Font.Widths[l] = rapid.IntRange(0, 12).Draw(t, "w")
		}
	}
	for _, l := range c07Codes {
		if rapid.Bool().Draw(t, "hascw") {
			c.Font.Widths[l] = rapid.IntRange(0, 40).Draw(t, "cw")
		}
	}
	if rapid.IntRange(0, 3).Draw(t, "hasdef") != 0 {
		c.Font.Widths["default"] = rapid.IntRange(0, 10).Draw(t, "defw")
	}
	if rapid.IntRange(0, 5).Draw(t, "hasspace") != 0 {
		c.Font.Widths[" "] = rapid.IntRange(0, 6).Draw(t, "spw")
	}
	c.Font.MaxLen, c.Font.Lines, c.Font.Overlap = 208, 2, 0
	// text
	n := rapid.IntRange(1, 14).Draw(t, "nitems")
	for i := 0; i < n; i++ {
		it := FItem{Sp: rapid.SampledFrom([]int{0, 1, 1, 1, 1, 2, 3}).Draw(t, "sp")}
		if rapid.IntRange(0, 5).Draw(t, "isbrk") == 0 {
			it.Brk = rapid.SampledFrom([]string{`\n`, `\l`, `\p`, `\N`, `\p`, `\N`}).Draw(t, "brk")
		} else {
			k := rapid.IntRange(1, 5).Draw(t, "wlen")
			for j := 0; j < k; j++ {
				if rapid.IntRange(0, 7).Draw(t, "code") == 0 {
					it.W += rapid.SampledFrom(c07Codes).Draw(t, "ccode")
				} else {
					it.W += rapid.SampledFrom(c07Letters).Draw(t, "letter")
				}
			}
			if len(c.Items) > 0 && c.Items[len(c.Items)-1].W != "" && it.Sp == 0 {
				it.Sp = 1
			}
		}
		if len(c.Items) > 0 && rapid.IntRange(0, 9).Draw(t, "nlsep") == 0 {
			it.NL = true
		}
		c.Items = append(c.Items, it)
	}
	c.Lines = rapid.IntRange(1, 4).Draw(t, "lines")
	// overlap: 0, small, or at least a word
	switch rapid.IntRange(0, 3).Draw(t, "ovk") {
	case 0, 1:
		c.Overlap = 0
	case 2:
		c.Overlap = rapid.IntRange(1, 6).Draw(t, "ov")
	default:
		c.Overlap = rapid.IntRange(7, 40).Draw(t, "ovbig")
	}
	// max line length relative to the text: the width of a random prefix +- {0,1}
	items := c.normItems()
	var words []string
	for _, it := range items {
		if it.W != "" {
			words = append(words, it.W)
		}
	}
	if len(words) > 0 {
		a := rapid.IntRange(0, len(words)-1).Draw(t, "pfxstart")
		b := rapid.IntRange(a, min(len(words)-1, a+4)).Draw(t, "pfxend")
		w := 0
		for i := a; i <= b; i++ {
			if i > a {
				w += c.glyph(" ")
			}
			w += c.width(words[i])
		}
		c.MaxLen = w + rapid.IntRange(-1, 1).Draw(t, "delta")
		if rapid.IntRange(0, 2).Draw(t, "plusov") == 0 {
			c.MaxLen += c.Overlap
		}
	}
	if c.MaxLen < 1 {
		c.MaxLen = 1
	}
	c.Seq = rapid.Bool().Draw(t, "seq")
	if rapid.IntRange(0, 3).Draw(t, "viacompiler") == 0 && c.FontID == "F" {
		c.Plumb = rapid.IntRange(1, 8).Draw(t, "plumb")
	}
	return c
}

func init() { register("C07", "TestC07_Format", checkC07, c07Src) }

func TestC07_Regress(t *testing.T) { runRegress(t, "C07") }

func TestC07_Format(t *testing.T) {
	st := stat("C07")
	st.SetRule("texts of 1-14 items (words over ASCII and multi-byte letters incl. no-break / ideographic space and TAB - which are not separators -, punctuation and {CONTROL} codes with and without arguments glued inside words; explicit \\n \\l \\p \\N glued or spaced; runs of spaces, line break characters as separators) with a generated font table (per-glyph widths 0-12, optional default, control-code and space widths incl. 0) or the TEST font; maxLineLength = width of a random run of words -1/0/+1 (optionally + overlap), numLines 1-4, cursor overlap 0 / small / wider than a word; 3 in 4 cases call FormatText directly (half of them on a FontConfig that has just formatted the same text with another font), 1 in 4 go through text T { format(...) } with the parameters given positionally (both orders), by name, by font config (of the default font, or of the font named by a positional / named fontId while another font is the default), or by the CLI defaults (which an explicit parameter of the call must override: half of the explicit variants run with other -l / -f defaults). oracle: overlap 0 => output equals the harness' greedy reference formatter; always => envelope (words and explicit breaks in order and unchanged, only single spaces, line width <= max resp. max - overlap on prompt lines unless a single word, every inserted break necessary, \\n / \\l discipline with \\p reset). non-trivial = >= 1 inserted break and a line within 1 pixel of its limit; distinct by (text, parameters)")
	st.Assume("backslashes occur only as the four break codes; every '{' is closed and braces are not nested (a stray '}' is an ordinary character)", "the cursor overlap is demanded on lines ending in \\p, or in \\l at paragraph line index >= numLines-1 (weakest reading)", "a named/positional parameter value <= 0 means 'use the font config value'")
	runRapid(t, "C07", "TestC07_Format", genC07, checkC07, c07Src)
}
