package harness

import (
	"pgregory.net/rapid"
)

var commentBodies = []string{"", " c", " 7 steps to the left", " 12 \"file.pory\"", "\t3. then this", ` data\maps\`, ` art \\`, " caf\ufffd x", "\ufffd", " \U0001F600 astral", " tab\there", " é comment", ` "quoted" `, " `tick` ", " # nested // x", "x{}()", " if (flag(A)) {"}

// drawGaps draws n+1 layout gaps (before each of n tokens and after the last one).
// Each gap is whitespace and/or comments; a comment always ends with a newline.
func drawGaps(t *rapid.T, n int, rich bool) []string {
	nl := rapid.SampledFrom([]string{"\n", "\n", "\n", "\r\n"}).Draw(t, "nl")
	gaps := make([]string, n+1)
	for i := range gaps {
		k := rapid.IntRange(0, 19).Draw(t, "gap")
		switch {
		case k <= 4:
			gaps[i] = ""
		case k <= 9:
			gaps[i] = " "
		case k == 10:
			gaps[i] = "  "
		case k == 11:
			gaps[i] = "\t"
			if rich && rapid.IntRange(0, 3).Draw(t, "lonecr") == 0 {
				// a carriage return that is not part of a CRLF pair is plain whitespace, not a line break
				gaps[i] = rapid.SampledFrom([]string{"\r", " \r ", "\r\r\n", "\t\r"}).Draw(t, "crgap")
			}
		case k <= 14:
			gaps[i] = nl
		case k == 15:
			gaps[i] = " " + nl + nl + "\t"
		default:
			if !rich {
				gaps[i] = " "
				break
			}
			body := rapid.SampledFrom(commentBodies).Draw(t, "comment")
			if rapid.IntRange(0, 3).Draw(t, "multicomment") == 0 {
				// a run of comments of both styles in one gap
				body2 := rapid.SampledFrom(commentBodies).Draw(t, "comment2")
				switch rapid.IntRange(0, 3).Draw(t, "mcorder") {
				case 0:
					gaps[i] = "//" + body + nl + "#" + body2 + nl
				case 1:
					gaps[i] = " #" + body + nl + "\t//" + body2 + nl
				case 2:
					gaps[i] = "//" + body + nl + "  # " + body2 + nl + "//" + body + nl
				default:
					gaps[i] = "#" + body + nl + "#" + body2 + nl + nl + "//" + nl
				}
				break
			}
			switch k {
			case 16:
				gaps[i] = "#" + body + nl
			case 17:
				gaps[i] = " //" + body + nl + "  "
			case 18:
				gaps[i] = nl + "# full line" + body + nl
			default:
				gaps[i] = "//" + body + nl
			}
		}
	}
	// at the very end of the input a comment needs no newline
	if rich && rapid.IntRange(0, 5).Draw(t, "eofcomment") == 0 {
		gaps[n] = rapid.SampledFrom([]string{"//", "#", " //", nl + "//", "// c", "#c", "\t# é", "  // x //"}).Draw(t, "eofc")
	}
	return gaps
}

// FixedGaps replays drawn gaps.
func FixedGaps(gaps []string) GapFn {
	return func(i int, mustSep bool) string {
		if i < len(gaps) {
			return gaps[i]
		}
		return " "
	}
}
