package harness

import (
	"fmt"

	"pgregory.net/rapid"
)

// GenCfg parametrises the control-flow generator.
type GenCfg struct {
	MaxDepth           int
	MaxStmts           int     // statements per nested block
	TopStmts           int     // statements per script body
	ExprMax            int     // max leaves of a compound condition
	CompoundP          int     // 1-in-N conditions are compound (0 = never)
	CondGoto           bool    // hand-written goto_if_set / goto_if_unset commands among the gotos
	Auto               AutoCfg // AutoVar commands that may be used as leaves / switch operands
	AutoP              int     // 1-in-N leaves are AutoVar leaves (0 = never)
	NoLabels           bool
	NoGoto             bool
	NoEndRet           bool
	NoSwitch           bool
	NoLoops            bool
	SymCases           bool // switch case values may be symbols / hex
	InlineText         bool // commands may carry an inline text / moves() argument
	NoBreakTail        bool // never generate statements after break in the same block
	MaxLabels          int
	PS                 int  // 1-in-N statements are poryswitch statements (0 = never)
	PSNestedFallback   bool // nested poryswitches always have a '_' case
	PSAlwaysFallback   bool // every statement poryswitch has a '_' case
	PSNoDirectContinue bool // never 'continue' as a direct statement of a poryswitch case
}

// DefaultCF is the control-flow profile of C01.
func DefaultCF() GenCfg {
	return GenCfg{MaxDepth: 4, MaxStmts: 3, TopStmts: 5, ExprMax: 4, CompoundP: 4, MaxLabels: 4}
}

type genCtx struct {
	t       *rapid.T
	cfg     GenCfg
	prefix  string
	nLabel  int
	nCmd    *int
	labels  []string
	gotos   []*Cmd
	psCase  bool // the next block() call generates the direct body of a poryswitch case
	psDepth int
}

var flagCmpVals = []string{"true", "false", "TRUE", "FALSE"}
var varOps = []string{"==", "!=", "<", "<=", ">", ">="}

func (g *genCtx) autoNames() []string {
	var n []string
	for k := range g.cfg.Auto {
		n = append(n, k)
	}
	sortStrings(n)
	return n
}

// autoCmd draws an AutoVar command invocation valid for its spec.
func (g *genCtx) autoCmd() *Cmd {
	t := g.t
	names := g.autoNames()
	name := rapid.SampledFrom(names).Draw(t, "autocmd")
	spec := g.cfg.Auto[name]
	c := &Cmd{Name: name}
	nargs := rapid.IntRange(0, 2).Draw(t, "autonargs")
	if spec.ArgPos != nil && nargs <= *spec.ArgPos {
		nargs = *spec.ArgPos + 1
	}
	for i := 0; i < nargs; i++ {
		if spec.ArgPos != nil && i == *spec.ArgPos {
			c.Args = append(c.Args, &Arg{Toks: []string{fmt.Sprintf("VAR_%d", rapid.IntRange(0, 3).Draw(t, "autovararg"))}})
		} else {
			c.Args = append(c.Args, &Arg{Toks: []string{fmt.Sprintf("A%d", rapid.IntRange(0, 9).Draw(t, "arg"))}})
		}
	}
	if nargs == 0 {
		c.Parens = rapid.Bool().Draw(t, "autoparens")
	}
	return c
}

func (g *genCtx) leaf() *Leaf {
	t := g.t
	if g.cfg.AutoP > 0 && len(g.cfg.Auto) > 0 && rapid.IntRange(1, g.cfg.AutoP).Draw(t, "isauto") == 1 {
		l := &Leaf{Kind: "auto", Auto: g.autoCmd()}
		g.varForm(l)
		return l
	}
	kind := rapid.SampledFrom([]string{"flag", "flag", "var", "var", "defeated"}).Draw(t, "kind")
	n := rapid.IntRange(0, 3).Draw(t, "opnd")
	l := &Leaf{Kind: kind}
	switch kind {
	case "flag":
		l.Operand = []string{fmt.Sprintf("FLAG_%d", n)}
	case "defeated":
		l.Operand = []string{fmt.Sprintf("TRAINER_%d", n)}
	default:
		l.Operand = []string{fmt.Sprintf("VAR_%d", n)}
	}
	if kind == "var" {
		g.varForm(l)
		return l
	}
	switch rapid.IntRange(0, 3).Draw(t, "form") {
	case 0:
	case 1:
		l.Op = "!"
	default:
		l.Op = rapid.SampledFrom([]string{"==", "!="}).Draw(t, "op")
		l.Value = []string{rapid.SampledFrom(flagCmpVals).Draw(t, "bval")}
	}
	return l
}

func (g *genCtx) varForm(l *Leaf) {
	t := g.t
	switch rapid.IntRange(0, 4).Draw(t, "form") {
	case 0:
	case 1:
		l.Op = "!"
	default:
		l.Op = rapid.SampledFrom(varOps).Draw(t, "op")
		l.Value = []string{g.intLit(rapid.IntRange(0, 4).Draw(t, "val"))}
		l.Wrap = rapid.IntRange(0, 4).Draw(t, "wrap") == 0
	}
}

// intLit writes n in decimal or (sometimes) hex.
func (g *genCtx) intLit(n int) string {
	if rapid.IntRange(0, 5).Draw(g.t, "hex") == 0 {
		return fmt.Sprintf("0x%X", n)
	}
	return fmt.Sprint(n)
}

func (g *genCtx) expr(budget int) *Expr {
	t := g.t
	if budget <= 1 {
		e := eLeaf(g.leaf())
		if rapid.IntRange(0, 7).Draw(t, "leafparen") == 0 {
			e = ePar(e)
		}
		return e
	}
	var e *Expr
	switch rapid.IntRange(0, 6).Draw(t, "ek") {
	case 0:
		e = eNot(g.expr(budget))
	case 1, 2, 3:
		lb := rapid.IntRange(1, budget-1).Draw(t, "split")
		e = eAnd(g.expr(lb), g.expr(budget-lb))
	default:
		lb := rapid.IntRange(1, budget-1).Draw(t, "split")
		e = eOr(g.expr(lb), g.expr(budget-lb))
	}
	if rapid.IntRange(0, 5).Draw(t, "redundant") == 0 {
		e = ePar(e)
	}
	return e
}

func (g *genCtx) cond() *Expr {
	n := 1
	if g.cfg.CompoundP > 0 && rapid.IntRange(1, g.cfg.CompoundP).Draw(g.t, "compound") == 1 {
		n = rapid.IntRange(2, g.cfg.ExprMax).Draw(g.t, "nleaf")
	}
	return g.expr(n)
}

func (g *genCtx) cmd() *Cmd {
	*g.nCmd++
	c := &Cmd{Name: fmt.Sprintf("c%d", *g.nCmd)}
	n := rapid.IntRange(0, 2).Draw(g.t, "nargs")
	for i := 0; i < n; i++ {
		c.Args = append(c.Args, &Arg{Toks: []string{fmt.Sprintf("A%d", rapid.IntRange(0, 9).Draw(g.t, "arg"))}})
	}
	if n == 0 {
		c.Parens = rapid.IntRange(0, 3).Draw(g.t, "parens") == 0
	}
	return c
}

func (g *genCtx) caseVal(k int) []string {
	if g.cfg.SymCases {
		switch rapid.IntRange(0, 3).Draw(g.t, "cvk") {
		case 0:
			return []string{fmt.Sprintf("SYM_%d", k)}
		case 1:
			return []string{fmt.Sprintf("0x%X", k)}
		}
	}
	return []string{fmt.Sprint(k)}
}

// block draws a statement list. inLoop: continue is legal; inBrk: break is
// legal; braceEnd: the block is closed by '}' (so a trailing continue parses).
func (g *genCtx) block(depth int, inLoop, inBrk bool, maxStmts int, braceEnd bool) *Block {
	t := g.t
	b := &Block{Stmts: []*Stmt{}}
	direct := g.psCase
	g.psCase = false
	n := rapid.IntRange(0, maxStmts).Draw(t, "nstmts")
	for i := 0; i < n; i++ {
		last := i == n-1
		if g.cfg.PS > 0 && rapid.IntRange(1, g.cfg.PS).Draw(t, "isps") == 1 && g.psDepth < 2 {
			b.Stmts = append(b.Stmts, &Stmt{K: "ps", PS: g.psStmt(depth, inLoop, inBrk)})
			continue
		}
		k := rapid.IntRange(0, 17).Draw(t, "sk")
		if depth >= g.cfg.MaxDepth && k >= 4 && k <= 8 {
			k = 0
		}
		if g.cfg.NoLoops && (k == 5 || k == 6) {
			k = 4
		}
		if g.cfg.NoSwitch && (k == 7 || k == 8) {
			k = 4
		}
		switch k {
		case 0, 1, 2, 3, 16, 17:
			b.Stmts = append(b.Stmts, sCmd(g.cmd()))
		case 4:
			ifs := &If{}
			na := rapid.SampledFrom([]int{1, 1, 1, 2, 2, 2, 3, 3, 4, 5}).Draw(t, "narms") // up to four elifs
			for a := 0; a < na; a++ {
				ifs.Arms = append(ifs.Arms, &Arm{Cond: g.cond(), Body: g.block(depth+1, inLoop, inBrk, g.cfg.MaxStmts, true)})
			}
			if rapid.Bool().Draw(t, "else") {
				ifs.Else = g.block(depth+1, inLoop, inBrk, g.cfg.MaxStmts, true)
			}
			b.Stmts = append(b.Stmts, &Stmt{K: "if", If: ifs})
		case 5:
			w := &While{}
			if rapid.IntRange(0, 3).Draw(t, "inf") != 0 {
				w.Cond = g.cond()
			}
			w.Body = g.block(depth+1, true, true, g.cfg.MaxStmts, true)
			b.Stmts = append(b.Stmts, &Stmt{K: "while", While: w})
		case 6:
			d := &DoWh{}
			d.Body = g.block(depth+1, true, true, g.cfg.MaxStmts, true)
			d.Cond = g.cond()
			b.Stmts = append(b.Stmts, &Stmt{K: "dowhile", Do: d})
		case 7, 8:
			b.Stmts = append(b.Stmts, &Stmt{K: "switch", Switch: g.switchStmt(depth, inLoop, braceEnd && last)})
		case 9:
			if inBrk {
				b.Stmts = append(b.Stmts, sBreak())
				if g.cfg.NoBreakTail {
					return b
				}
			} else {
				b.Stmts = append(b.Stmts, sCmd(g.cmd()))
			}
		case 10:
			if inLoop && last && braceEnd && !(direct && g.cfg.PSNoDirectContinue) {
				b.Stmts = append(b.Stmts, sContinue())
			} else {
				b.Stmts = append(b.Stmts, sCmd(g.cmd()))
			}
		case 11:
			if g.cfg.NoEndRet {
				b.Stmts = append(b.Stmts, sCmd(g.cmd()))
			} else if rapid.Bool().Draw(t, "endret") {
				b.Stmts = append(b.Stmts, sCmd(&Cmd{Name: "end"}))
			} else {
				b.Stmts = append(b.Stmts, sCmd(&Cmd{Name: "return"}))
			}
		case 12, 13:
			if !g.cfg.NoLabels && g.nLabel < g.cfg.MaxLabels {
				g.nLabel++
				name := fmt.Sprintf("%sLbl%c", g.prefix, 'A'+g.nLabel-1)
				g.labels = append(g.labels, name)
				st := sLabel(name)
				if rapid.IntRange(0, 5).Draw(t, "lblscope") == 0 {
					st.Label.Scope = rapid.SampledFrom([]string{"global", "local"}).Draw(t, "lblscopev")
				}
				b.Stmts = append(b.Stmts, st)
			} else {
				b.Stmts = append(b.Stmts, sCmd(g.cmd()))
			}
		case 14, 15:
			if g.cfg.NoGoto {
				b.Stmts = append(b.Stmts, sCmd(g.cmd()))
			} else {
				gt := &Cmd{Name: "goto", Args: plainArgs(fmt.Sprint(rapid.IntRange(0, 6).Draw(t, "gototarget")))}
				if g.cfg.CondGoto && rapid.IntRange(0, 3).Draw(t, "condgoto") == 0 {
					// a conditional jump written by hand (execution goes on after it when the flag says so)
					gt.Name = rapid.SampledFrom([]string{"goto_if_set", "goto_if_unset"}).Draw(t, "condgotoname")
					gt.Args = append(plainArgs(fmt.Sprintf("FLAG_%d", rapid.IntRange(0, 3).Draw(t, "condgotoflag"))), gt.Args...)
				}
				g.gotos = append(g.gotos, gt)
				b.Stmts = append(b.Stmts, sCmd(gt))
			}
		}
	}
	return b
}

// switchStmt draws a switch; lastBrace: the switch's closing brace is directly
// followed by the enclosing block's closing brace (irrelevant for the cases:
// the last case body always ends at the switch's own '}').
func (g *genCtx) switchStmt(depth int, inLoop bool, _ bool) *Switch {
	t := g.t
	sw := &Switch{}
	if g.cfg.AutoP > 0 && len(g.cfg.Auto) > 0 && rapid.IntRange(1, g.cfg.AutoP).Draw(t, "swauto") == 1 {
		sw.Auto = g.autoCmd()
	} else {
		sw.Var = []string{fmt.Sprintf("VAR_%d", rapid.IntRange(0, 3).Draw(t, "swvar"))}
	}
	nc := rapid.IntRange(1, 5).Draw(t, "ncases")
	defPos := rapid.IntRange(-2, nc-1).Draw(t, "defpos")
	vals := rapid.Permutation([]int{0, 1, 2, 3, 4, 5}).Draw(t, "vals")
	for c := 0; c < nc; c++ {
		cs := &Case{}
		if c == defPos {
			cs.IsDefault = true
		} else {
			cs.Val = g.caseVal(vals[c])
		}
		if rapid.IntRange(0, 2).Draw(t, "emptybody") == 0 {
			cs.Body = &Block{Stmts: []*Stmt{}}
		} else {
			cs.Body = g.block(depth+1, inLoop, true, g.cfg.MaxStmts, c == nc-1)
		}
		sw.Cases = append(sw.Cases, cs)
	}
	return sw
}

// GenScripts draws 1..n scripts with cross-script gotos.
func GenScripts(t *rapid.T, cfg GenCfg, nScripts int) *File {
	f := &File{}
	var allLabels []string
	var allGotos []*Cmd
	nCmd := 0
	for s := 0; s < nScripts; s++ {
		name := fmt.Sprintf("Scr%c", 'A'+s)
		g := &genCtx{t: t, cfg: cfg, prefix: name + "_", nCmd: &nCmd}
		body := g.block(0, false, false, cfg.TopStmts, true)
		sc := &Script{Name: name, Body: body}
		if rapid.IntRange(0, 3).Draw(t, "scrscope") == 0 {
			sc.Scope = rapid.SampledFrom([]string{"global", "local"}).Draw(t, "scrscopev")
		}
		f.Tops = append(f.Tops, &Top{K: "script", Script: sc})
		allLabels = append(allLabels, g.labels...)
		allLabels = append(allLabels, name)
		allGotos = append(allGotos, g.gotos...)
	}
	resolveGotos(allGotos, allLabels)
	return f
}

func resolveGotos(gotos []*Cmd, labels []string) {
	for _, gt := range gotos {
		var idx int
		a := gt.Args[0] // the target: goto L / goto_if_set FLAG, L (later arguments may have been added by decorate)
		if gt.Name != "goto" {
			a = gt.Args[1]
		}
		fmt.Sscan(a.Toks[0], &idx)
		if idx < 6 && len(labels) > 0 {
			a.Toks[0] = labels[idx%len(labels)]
		} else {
			a.Toks[0] = "External_Label"
		}
	}
}

var psKeys = []string{"A", "B", "1", "_", "0x2"}

// psStmt draws a statement poryswitch. Cases in colon form hold exactly one statement.
func (g *genCtx) psStmt(depth int, inLoop, inBrk bool) *PSStmt {
	t := g.t
	g.psDepth++
	defer func() { g.psDepth-- }()
	ps := &PSStmt{Var: rapid.SampledFrom([]string{"V", "W"}).Draw(t, "psvar")}
	keys := rapid.Permutation(psKeys).Draw(t, "pskeys")
	keys = keys[:rapid.IntRange(1, 4).Draw(t, "npskeys")]
	if (g.psDepth > 1 && g.cfg.PSNestedFallback) || g.cfg.PSAlwaysFallback {
		has := false
		for _, k := range keys {
			has = has || k == "_"
		}
		if !has {
			keys = append(keys, "_")
		}
	}
	for _, k := range keys {
		c := &PSStmtCase{Key: k, Brace: rapid.Bool().Draw(t, "brace")}
		g.psCase = true
		if c.Brace {
			c.Body = g.block(depth+1, inLoop, inBrk, g.cfg.MaxStmts, true)
		} else {
			// the single statement is followed by the next case key or the closing brace: no trailing continue
			c.Body = g.block(depth+1, false, inBrk, 1, false)
			if len(c.Body.Stmts) == 0 {
				c.Body.Stmts = append(c.Body.Stmts, sCmd(g.cmd()))
			}
			// a label is a statement of its own; "key: Label:" is fine
		}
		g.psCase = false
		ps.Cases = append(ps.Cases, c)
	}
	// sometimes every case starts with the same label, each with a modifier of its own: only the
	// selected case contributes, so the name is still defined once - with the scope written in THAT case
	if !g.cfg.NoLabels && g.nLabel < g.cfg.MaxLabels && g.psDepth == 1 && rapid.IntRange(0, 5).Draw(t, "sharedlabel") == 0 {
		g.nLabel++
		name := fmt.Sprintf("%sLbl%c", g.prefix, 'A'+g.nLabel-1)
		g.labels = append(g.labels, name)
		for _, c := range ps.Cases {
			st := sLabel(name)
			st.Label.Scope = rapid.SampledFrom([]string{"", "global", "local"}).Draw(t, "sharedlabelscope")
			if c.Brace {
				c.Body.Stmts = append([]*Stmt{st}, c.Body.Stmts...)
			} else {
				c.Body.Stmts = []*Stmt{st}
			}
		}
	}
	return ps
}
