package harness

import (
	"fmt"
	"sort"
	"strings"
	"testing"

	"pgregory.net/rapid"
)

// C05: -optimize changes layout only and leaves no redundant jumps or labels.

// isGenGoto: a compiler-generated unconditional jump (target is a generated sub-label).
func isGenGoto(l ALine, m *modelNames) bool {
	return l.Op == "goto" && len(l.Args) == 1 && m.genSubLabel(l.Args[0])
}

// dataBlocks maps every non-script label to the lines that follow it (until the next label).
func dataBlocks(a *Asm, m *modelNames) map[string][]string {
	out := map[string][]string{}
	cur := ""
	for _, l := range a.Lines {
		if l.IsMark {
			continue
		}
		if l.Label != "" {
			cur = ""
			if !m.entrySet[l.Label] && !m.genSubLabel(l.Label) {
				if _, user := m.userLabels[l.Label]; !user {
					cur = l.Label
					out[cur] = []string{}
				}
			}
			continue
		}
		if cur != "" {
			out[cur] = append(out[cur], l.Raw)
		}
	}
	return out
}

func layoutClauses(f *File, out string, tag string) *Violation {
	m := collectNames(f)
	a := ParseAsm(out)
	m.noteOutput(a)
	referenced := map[string]bool{}
	for _, l := range a.Lines {
		for _, tg := range jumpTargets(l) {
			referenced[tg] = true
		}
		// user commands may mention labels as plain arguments too
		if l.Op != "" {
			for _, arg := range l.Args {
				referenced[arg] = true
			}
		}
	}
	for i, l := range a.Lines {
		// (d) no generated goto to the label on the very next line
		if isGenGoto(l, m) {
			j := i + 1
			for j < len(a.Lines) && a.Lines[j].IsMark {
				j++
			}
			// several labels may be stacked; the goto is redundant if any of the directly following labels is its target
			for k := j; k < len(a.Lines) && (a.Lines[k].Label != "" || a.Lines[k].IsMark); k++ {
				if a.Lines[k].Label == l.Args[0] {
					return viol("redundant-goto", "%s: generated 'goto %s' targets the label on the very next line", tag, l.Args[0])
				}
			}
		}
		// (e) every generated sub-label is referred to
		if l.Label != "" && m.genSubLabel(l.Label) && !referenced[l.Label] {
			return viol("unreferenced-label", "%s: generated sub-label %s is emitted but nothing refers to it", tag, l.Label)
		}
	}
	return nil
}

func checkC05(c *FileCase) *Violation {
	st := stat("C05")
	src := fileCaseSrc(c)
	var outs [2]string
	var errs [2]error
	for i, opt := range []bool{false, true} {
		res := CompileMaybeLM(src, c.opts(opt))
		if !res.OK() {
			if res.Panic != nil || res.Budget {
				return viol("crash", "opt=%v %s\n--- source\n%s", opt, res.Describe(), src)
			}
			errs[i] = res.Err
		}
		outs[i] = res.Out
	}
	if (errs[0] == nil) != (errs[1] == nil) {
		// optimisation only reorders code and removes jumps: it cannot decide whether a program is accepted
		return viol("acceptance-differs", "unoptimized error: %v\noptimized error: %v\n--- source\n%s", errs[0], errs[1], src)
	}
	if errs[0] != nil {
		st.Label("rejected")
		if c.Meta["clash"] != "" {
			st.Eval(src, true, func() any { return clip(errs[0].Error()+"\n"+src, 900) }, "clash-rejected-in-both-forms")
		}
		st.Note("last_rejection", clip(errs[0].Error()+"\n"+src, 800))
		return nil
	}
	model := c.model()
	m := collectNames(model)
	a0, a1 := ParseAsm(outs[0]), ParseAsm(outs[1])
	m.noteOutput(a0)
	m.noteOutput(a1)
	detail := func(s string) string {
		return fmt.Sprintf("%s\n--- source\n%s--- unoptimized\n%s--- optimized\n%s", s, src, outs[0], outs[1])
	}
	// (a) identical behaviour from every entry
	for _, name := range m.entries {
		for _, w := range c.worlds() {
			o0, o1 := a0.Run(name, w), a1.Run(name, w)
			if o0.String() != o1.String() {
				return viol("behaviour-differs", "%s", detail(fmt.Sprintf("entry=%s world=%d\nunoptimized %s\noptimized   %s", name, w.Seed, o0, o1)))
			}
		}
	}
	if c.Meta["clash"] != "" {
		// a user label shaped like a generated one that does not clash: the naming model of (b)-(e) does not apply
		st.Label("clash-shaped-label-accepted")
		return nil
	}
	// (b) same user-visible labels with the same scope, same data blocks
	vis := func(a *Asm) map[string]bool {
		s := map[string]bool{}
		for n, defs := range a.Labels {
			if m.genSubLabel(n) {
				continue
			}
			for _, d := range defs {
				s[fmt.Sprintf("%s global=%v", n, a.Lines[d].Global)] = true
			}
		}
		return s
	}
	if v0, v1 := sortedSet(vis(a0)), sortedSet(vis(a1)); v0 != v1 {
		return viol("labels-differ", "%s", detail("user-visible labels differ:\nunoptimized "+v0+"\noptimized   "+v1))
	}
	d0, d1 := dataBlocks(a0, m), dataBlocks(a1, m)
	for _, k := range sortedKeys(d0) {
		if strings.Join(d0[k], "\n") != strings.Join(d1[k], "\n") {
			return viol("data-differs", "%s", detail("data under label "+k+" differs"))
		}
	}
	// (c) only reorders code and removes jumps
	code := func(a *Asm) ([]string, int) {
		var lines []string
		gotos := 0
		for _, l := range a.Lines {
			if l.IsMark || l.Label != "" && m.genSubLabel(l.Label) {
				continue
			}
			if isGenGoto(l, m) {
				gotos++
				continue
			}
			lines = append(lines, l.Raw)
		}
		sort.Strings(lines)
		return lines, gotos
	}
	c0, g0 := code(a0)
	c1, g1 := code(a1)
	if strings.Join(c0, "\n") != strings.Join(c1, "\n") {
		return viol("code-differs", "%s", detail("the two outputs do not consist of the same lines (apart from generated gotos and sub-labels)"))
	}
	if g1 > g0 {
		return viol("more-jumps", "%s", detail(fmt.Sprintf("optimized output has %d generated gotos, unoptimized %d", g1, g0)))
	}
	// (d) (e) in either form
	for i, tag := range []string{"unoptimized", "optimized"} {
		if v := layoutClauses(model, outs[i], tag); v != nil {
			v.Detail = detail(v.Detail)
			return v
		}
	}
	// non-trivial: the outputs differ in line order, not only by removed lines
	strip := func(a *Asm) string {
		var sb strings.Builder
		for _, l := range a.Lines {
			if l.IsMark || isGenGoto(l, m) || (l.Label != "" && m.genSubLabel(l.Label)) {
				continue
			}
			sb.WriteString(l.Raw + "\n")
		}
		return sb.String()
	}
	reordered := strip(a0) != strip(a1)
	st.Eval(src, reordered, func() any { return clip(src, 1500) }, fmt.Sprintf("gotos_removed=%d", min(g0-g1, 5)))
	return nil
}

func genC05(t *rapid.T) *FileCase {
	c := genC05Base(t)
	if rapid.IntRange(0, 7).Draw(t, "clashlabel") == 0 {
		// one user label gets the shape of a generated sub-label of its script: rejected when that
		// sub-label exists, whatever the layout. gotos keep the old name (they now leave the file in both
		// forms): a goto to a generated-shaped name would rely on generated labels, which nothing promises
		var cands []*Script
		for _, sc := range c.File.Scripts() {
			has := false
			walkStmts(sc.Body, func(s *Stmt) {
				if s.K == "label" {
					has = true
				}
			})
			if has {
				cands = append(cands, sc)
			}
		}
		if len(cands) > 0 {
			sc := cands[rapid.IntRange(0, len(cands)-1).Draw(t, "clashscript")]
			var labels []*Stmt
			walkStmts(sc.Body, func(s *Stmt) {
				if s.K == "label" {
					labels = append(labels, s)
				}
			})
			l := labels[rapid.IntRange(0, len(labels)-1).Draw(t, "clashwhich")]
			oldName := l.Label.Name
			newName := fmt.Sprintf("%s_%d", sc.Name, rapid.IntRange(1, 9).Draw(t, "clashn"))
			for _, tp := range c.File.Tops {
				var blocks []*Block
				if tp.K == "script" {
					blocks = append(blocks, tp.Script.Body)
				}
				if tp.K == "mapscripts" {
					for _, e := range tp.Map.Entries {
						blocks = append(blocks, e.Body)
						for _, r := range e.Rows {
							blocks = append(blocks, r.Body)
						}
					}
				}
				for _, b := range blocks {
					walkStmts(b, func(s *Stmt) {
						if s.K == "label" && s.Label.Name == oldName {
							s.Label.Name = newName
						}
					})
				}
			}
			if c.Meta == nil {
				c.Meta = map[string]string{}
			}
			c.Meta["clash"] = newName
		}
	}
	return c
}

func genC05Base(t *rapid.T) *FileCase {
	if rapid.IntRange(0, 2).Draw(t, "kitchen") == 0 {
		return genKitchenCase(t, pick(6, 16), pick(4, 5))
	}
	cfg := DefaultFileCfg()
	cfg.CF.MaxDepth = pick(4, 5)
	cfg.CF.CondGoto = true
	if rapid.Bool().Draw(t, "scriptsonly") {
		cfg.Texts, cfg.Movements, cfg.Marts, cfg.Raws = false, false, false, false
	}
	return genFileCase(t, cfg, pick(6, 16))
}

func init() { register("C05", "TestC05_Optimize", checkC05, fileCaseSrc) }

func TestC05_Regress(t *testing.T) { runRegress(t, "C05") }

func TestC05_Optimize(t *testing.T) {
	st := stat("C05")
	st.SetRule("whole files as in C04, compiled with optimize off and on: (a) both outputs executed from every script / inline map script entry under 6 (thorough 16) hashed worlds give identical traces and finishes; (b) same user-visible labels and scopes, identical data blocks; (c) same multiset of lines apart from generated gotos and sub-labels, and not more generated gotos when optimized; (d) no generated goto to the label on the next line, (e) no unreferenced generated sub-label, in either output; (f) a program is accepted with optimize on exactly when it is accepted with optimize off (1 in 8 cases names a user label like a generated sub-label of its script, which is rejected iff that sub-label exists; for those only (a) and (f) are checked). non-trivial = the two outputs differ in line order (not only by removed lines); distinct by source text")
	st.Assume("a generated jump is a goto whose target is <entry>_<n>; user names never have that shape (except the clash cases, where the naming-based clauses (b)-(e) are skipped)")
	runRapid(t, "C05", "TestC05_Optimize", genC05, checkC05, fileCaseSrc)
}
