package harness

import (
	"encoding/json"
	"fmt"
	"os"
	"path/filepath"
	"strings"
	"sync"

	"github.com/huderlem/poryscript/emitter"
	"github.com/huderlem/poryscript/lexer"
	"github.com/huderlem/poryscript/parser"
)

// Opts are the options of one compilation (the library API's parameters).
type Opts struct {
	Optimize    bool              `json:"optimize,omitempty"`
	LineMarkers bool              `json:"lm,omitempty"`
	Path        string            `json:"path,omitempty"`
	Switches    map[string]string `json:"switches,omitempty"`
	FontPath    string            `json:"fontpath,omitempty"` // "" = none; "@repo" = /repo/font_config.json
	FontJSON    string            `json:"fontjson,omitempty"` // when set, written to a temp file that is used as font config
	FontID      string            `json:"fontid,omitempty"`
	MaxLen      int               `json:"maxlen,omitempty"`
	Auto        AutoCfg           `json:"auto,omitempty"` // command config; nil = none; see RepoAuto
	Lint        bool              `json:"lint,omitempty"`
}

// Result of one compilation.
type Result struct {
	Out    string
	Err    error
	PErr   *parser.ParseError // set when Err is a ParseError
	Panic  any                // recovered panic value (nil when none)
	Budget bool               // the token budget was exhausted
	Stage  string             // "parse" or "emit": where Err/Panic happened
}

func (r Result) OK() bool { return r.Err == nil && r.Panic == nil && !r.Budget }

func (r Result) Describe() string {
	switch {
	case r.Budget:
		return "TOKEN BUDGET EXCEEDED (unbounded token consumption) in " + r.Stage
	case r.Panic != nil:
		return fmt.Sprintf("PANIC in %s: %v", r.Stage, r.Panic)
	case r.Err != nil:
		return "error: " + r.Err.Error()
	}
	return "ok"
}

var repoRoot = "/repo"

func toCC(a AutoCfg) parser.CommandConfig {
	cc := parser.CommandConfig{}
	if a == nil {
		return cc
	}
	cc.AutoVarCommands = map[string]parser.AutoVarCommand{}
	for k, v := range a {
		cc.AutoVarCommands[k] = parser.AutoVarCommand{VarName: v.VarName, VarNameArgPosition: v.ArgPos}
	}
	return cc
}

var repoAutoOnce sync.Once
var repoAuto AutoCfg

// RepoAuto loads /repo/command_config.json.
func RepoAuto() AutoCfg {
	repoAutoOnce.Do(func() {
		b, err := os.ReadFile(filepath.Join(repoRoot, "command_config.json"))
		if err != nil {
			panic(err)
		}
		var raw struct {
			A map[string]AutoSpec `json:"autovar_commands"`
		}
		if err := json.Unmarshal(b, &raw); err != nil {
			panic(err)
		}
		repoAuto = AutoCfg(raw.A)
	})
	return repoAuto
}

var fontTmpMu sync.Mutex
var fontTmp = map[string]string{}
var tmpDir string

func fontPathFor(o Opts) string {
	if o.FontJSON != "" {
		fontTmpMu.Lock()
		defer fontTmpMu.Unlock()
		if p, ok := fontTmp[o.FontJSON]; ok {
			return p
		}
		if tmpDir == "" {
			d, err := os.MkdirTemp("", "verif-fonts-")
			if err != nil {
				panic(err)
			}
			tmpDir = d
		}
		p := filepath.Join(tmpDir, fmt.Sprintf("font_%d.json", len(fontTmp)))
		if err := os.WriteFile(p, []byte(o.FontJSON), 0o644); err != nil {
			panic(err)
		}
		if len(fontTmp) > 4096 { // keep the temp dir bounded
			for k, v := range fontTmp {
				os.Remove(v)
				delete(fontTmp, k)
			}
		}
		fontTmp[o.FontJSON] = p
		return p
	}
	if o.FontPath == "@repo" {
		return filepath.Join(repoRoot, "font_config.json")
	}
	return o.FontPath
}

func cleanupTmp() {
	if tmpDir != "" {
		os.RemoveAll(tmpDir)
	}
}

// Compile runs the library pipeline the way main.go does, with recover and the token budget.
func Compile(src string, o Opts) (res Result) {
	res.Stage = "parse"
	setBudget(int64(4*len(src) + 256))
	defer setBudget(-1)
	defer func() {
		if r := recover(); r != nil {
			if isBudgetPanic(r) {
				res.Budget = true
			} else {
				res.Panic = r
			}
		}
	}()
	var p *parser.Parser
	if o.Lint {
		p = parser.NewLintParser(lexer.New(src), toCC(o.Auto))
	} else {
		p = parser.New(lexer.New(src), toCC(o.Auto), fontPathFor(o), o.FontID, o.MaxLen, o.Switches)
	}
	prog, err := p.ParseProgram()
	if err != nil {
		res.Err = err
		if pe, ok := err.(parser.ParseError); ok {
			res.PErr = &pe
		}
		return
	}
	res.Stage = "emit"
	out, err := emitter.New(prog, o.Optimize, o.LineMarkers, o.Path).Emit()
	if err != nil {
		res.Err = err
		if pe, ok := err.(parser.ParseError); ok {
			res.PErr = &pe
		}
		return
	}
	res.Out = out
	return
}

// CountLines is the number of lines of a source text as an editor counts them.
func CountLines(src string) int {
	n := strings.Count(src, "\n") + 1
	return n
}
