package harness

import (
	"encoding/json"
	"fmt"
	"os"
	"path/filepath"
	"runtime"
	"strconv"
	"strings"
	"sync"
	"sync/atomic"
	"syscall"
	"time"

	"github.com/huderlem/poryscript/emitter"
	"github.com/huderlem/poryscript/lexer"
	"github.com/huderlem/poryscript/parser"
)

// Opts are the options of one compilation (the library API's parameters).
type Opts struct {
	Optimize    bool              `json:"optimize,omitempty"`
	LineMarkers bool              `json:"lm,omitempty"`
	Path        string            `json:"path,omitempty"`
	Switches    map[string]string `json:"switches,omitempty"`
	FontPath    string            `json:"fontpath,omitempty"` // "" = none; "@repo" = /repo/font_config.json
	FontJSON    string            `json:"fontjson,omitempty"` // when set, written to a temp file that is used as font config
	FontID      string            `json:"fontid,omitempty"`
	MaxLen      int               `json:"maxlen,omitempty"`
	Auto        AutoCfg           `json:"auto,omitempty"` // command config; nil = none; see RepoAuto
	Lint        bool              `json:"lint,omitempty"`
}

// Result of one compilation.
type Result struct {
	Out    string
	Err    error
	PErr   *parser.ParseError // set when Err is a ParseError
	Panic  any                // recovered panic value (nil when none)
	Budget bool               // the token budget was exhausted
	Stage  string             // "parse" or "emit": where Err/Panic happened
}

func (r Result) OK() bool { return r.Err == nil && r.Panic == nil && !r.Budget }

func (r Result) Describe() string {
	switch {
	case r.Budget:
		return "TOKEN BUDGET EXCEEDED (unbounded token consumption) in " + r.Stage
	case r.Panic != nil:
		return fmt.Sprintf("PANIC in %s: %v", r.Stage, r.Panic)
	case r.Err != nil:
		return "error: " + r.Err.Error()
	}
	return "ok"
}

var repoRoot = envOr("VERIF_REPO", "/repo")

func toCC(a AutoCfg) parser.CommandConfig {
	cc := parser.CommandConfig{}
	if a == nil {
		return cc
	}
	cc.AutoVarCommands = map[string]parser.AutoVarCommand{}
	for k, v := range a {
		cc.AutoVarCommands[k] = parser.AutoVarCommand{VarName: v.VarName, VarNameArgPosition: v.ArgPos}
	}
	return cc
}

var repoAutoOnce sync.Once
var repoAuto AutoCfg

// RepoAuto loads /repo/command_config.json.
func RepoAuto() AutoCfg {
	repoAutoOnce.Do(func() {
		b, err := os.ReadFile(filepath.Join(repoRoot, "command_config.json"))
		if err != nil {
			panic(err)
		}
		var raw struct {
			A map[string]AutoSpec `json:"autovar_commands"`
		}
		if err := json.Unmarshal(b, &raw); err != nil {
			panic(err)
		}
		repoAuto = AutoCfg(raw.A)
	})
	return repoAuto
}

var fontTmpMu sync.Mutex
var fontTmp = map[string]string{}
var fontSeq int
var tmpDir string

func fontPathFor(o Opts) string {
	if o.FontJSON != "" {
		fontTmpMu.Lock()
		defer fontTmpMu.Unlock()
		if p, ok := fontTmp[o.FontJSON]; ok {
			return p
		}
		if tmpDir == "" {
			d, err := os.MkdirTemp("", "verif-fonts-")
			if err != nil {
				panic(err)
			}
			tmpDir = d
		}
		if len(fontTmp) > 2048 { // keep the temp dir bounded (evict BEFORE writing the new file)
			for k, v := range fontTmp {
				os.Remove(v)
				delete(fontTmp, k)
			}
		}
		fontSeq++
		p := filepath.Join(tmpDir, fmt.Sprintf("font_%d.json", fontSeq)) // names are never reused
		if err := os.WriteFile(p, []byte(o.FontJSON), 0o644); err != nil {
			panic(err)
		}
		fontTmp[o.FontJSON] = p
		return p
	}
	if o.FontPath == "@repo" {
		return filepath.Join(repoRoot, "font_config.json")
	}
	return o.FontPath
}

func cleanupTmp() {
	if tmpDir != "" {
		os.RemoveAll(tmpDir)
	}
}

// ---- hang / memory watchdog ----
// A compilation normally takes well under a millisecond. The watchdog (started
// by TestMain) looks at the compilation in flight: when one has been running
// for hangLimit, or the heap exceeds memLimit, it saves the input as a replay
// file, prints a HANG-SUSPECT line and ends the process. The driver then
// re-runs exactly that input twice in a child with a time limit; only a
// reproducible non-termination is reported as a violation.

type inflightRec struct {
	src   string
	opts  Opts
	start time.Time
	tid   int    // OS thread the compiling goroutine is locked to
	seq   uint64 // distinguishes compilations (the address of a freed record may be reused by a later one)
}

// threadCPU is the user+system CPU time the OS thread tid has used so far (10 ms resolution), read
// from /proc. The compiling goroutine is locked to its thread for the duration of a compilation, so
// this is the CPU time of the compilation itself: neither a starved machine nor the garbage
// collector's threads can make a short compilation look like a spinning one.
func threadCPU(tid int) time.Duration {
	b, err := os.ReadFile(fmt.Sprintf("/proc/self/task/%d/stat", tid))
	if err != nil {
		return 0
	}
	s := string(b)
	i := strings.LastIndexByte(s, ')')
	if i < 0 {
		return 0
	}
	f := strings.Fields(s[i+1:])
	if len(f) < 13 {
		return 0
	}
	ut, _ := strconv.ParseInt(f[11], 10, 64)
	st, _ := strconv.ParseInt(f[12], 10, 64)
	return time.Duration(ut+st) * 10 * time.Millisecond
}

var inflight atomic.Pointer[inflightRec]
var inflightSeq atomic.Uint64

const hangLimit = 15 * time.Second
const memLimit = 6 << 30

// HangCase is the replayable form of a compilation that did not come back.
type HangCase struct {
	Src  string `json:"src"`
	Opts Opts   `json:"opts"`
}

func startWatchdog() {
	go func() {
		var seen uint64
		var seenCPU time.Duration
		for {
			time.Sleep(250 * time.Millisecond)
			r := inflight.Load()
			if r == nil {
				continue
			}
			if r.seq != seen { // first sight of this compilation (at most 250 ms after its start)
				seen, seenCPU = r.seq, threadCPU(r.tid)
				continue
			}
			why := ""
			// wall-clock alone would suspect a hang whenever the machine is oversubscribed: a spinning
			// compilation also burns CPU, so both must have passed (a compilation blocked without using
			// CPU is suspected after ten times the limit)
			if wall := time.Since(r.start); wall > hangLimit && (threadCPU(r.tid)-seenCPU > hangLimit/2 || wall > 10*hangLimit) {
				why = fmt.Sprintf("a compilation has been running for more than %v", hangLimit)
			} else {
				var ms runtime.MemStats
				runtime.ReadMemStats(&ms)
				if ms.HeapAlloc > memLimit {
					why = fmt.Sprintf("heap grew to %d MB during one compilation", ms.HeapAlloc>>20)
				}
			}
			if why == "" {
				continue
			}
			id := os.Getenv("VERIF_PROPERTY")
			if id == "" {
				id = "C18"
			}
			raw, _ := json.Marshal(HangCase{Src: r.src, Opts: r.opts})
			rf := ReplayFile{Property: id, Test: "TestHang_Compile", Clause: "does-not-terminate", Detail: why, Src: r.src, Case: raw}
			dir := filepath.Join(verifRoot, "replays", id)
			os.MkdirAll(dir, 0o755)
			path := filepath.Join(dir, fmt.Sprintf("hang-%016x.json", hash64(string(raw))))
			data, _ := json.MarshalIndent(rf, "", " ")
			os.WriteFile(path, data, 0o644)
			say("HANG-SUSPECT property=%s replay=%s (%s)", id, path, why)
			flushStats()
			os.Exit(3)
		}
	}()
}

// checkHang replays a suspected non-terminating compilation with a time limit.
func checkHang(c *HangCase) *Violation {
	done := make(chan Result, 1)
	go func() { done <- Compile(c.Src, c.Opts) }()
	select {
	case <-done:
		return nil
	case <-time.After(hangLimit):
		return viol("does-not-terminate", "compilation did not finish within %v (opts %+v)\n--- source\n%s", hangLimit, c.Opts, c.Src)
	}
}

func init() {
	register("C18", "TestHang_Compile", checkHang, func(c *HangCase) string { return c.Src })
}

// Compile runs the library pipeline the way main.go does, with recover and the token budget.
func Compile(src string, o Opts) (res Result) {
	res.Stage = "parse"
	if inflight.Load() == nil { // (nested use from checkHang's goroutine keeps the outer record)
		runtime.LockOSThread()
		defer runtime.UnlockOSThread()
		tid := syscall.Gettid()
		inflight.Store(&inflightRec{src: src, opts: o, start: time.Now(), tid: tid, seq: inflightSeq.Add(1)})
		defer inflight.Store(nil)
	}
	setBudget(int64(4*len(src) + 256))
	defer setBudget(-1)
	defer func() {
		if r := recover(); r != nil {
			if isBudgetPanic(r) {
				res.Budget = true
			} else {
				res.Panic = r
			}
		}
	}()
	var p *parser.Parser
	if o.Lint {
		p = parser.NewLintParser(lexer.New(src), toCC(o.Auto))
	} else {
		p = parser.New(lexer.New(src), toCC(o.Auto), fontPathFor(o), o.FontID, o.MaxLen, o.Switches)
	}
	prog, err := p.ParseProgram()
	if err != nil {
		res.Err = err
		if pe, ok := err.(parser.ParseError); ok {
			res.PErr = &pe
		}
		return
	}
	res.Stage = "emit"
	out, err := emitter.New(prog, o.Optimize, o.LineMarkers, o.Path).Emit()
	if err != nil {
		res.Err = err
		if pe, ok := err.(parser.ParseError); ok {
			res.PErr = &pe
		}
		return
	}
	res.Out = out
	return
}

// CountLines is the number of lines of a source text as an editor counts them.
func CountLines(src string) int {
	n := strings.Count(src, "\n") + 1
	return n
}

// CompileMaybeLM is Compile, except that for a quarter of the sources (chosen by a hash of the
// source, so it is a pure function of the case) the compilation runs with line markers switched on
// and an input path given; the marker lines are then removed. Markers are not code, so every
// property about the emitted code must hold for that output just the same.
func CompileMaybeLM(src string, o Opts) Result {
	if o.LineMarkers || hash64(src)%4 != 0 {
		if !o.LineMarkers && o.Path == "" && hash64(src)%4 == 1 {
			o.Path = "data/scripts/check.pory" // the path alone (markers off) changes nothing
		}
		return Compile(src, o)
	}
	o.LineMarkers = true
	if o.Path == "" {
		o.Path = "data/scripts/check.pory"
	}
	r := Compile(src, o)
	if r.Err == nil && r.Panic == nil && !r.Budget {
		r.Out = StripMarkers(r.Out)
	}
	return r
}
