package harness

import (
	"fmt"
	"strings"
	"testing"

	"pgregory.net/rapid"
)

// C13: using a constant is the same as writing its value.

type C13Case struct {
	File  *File `json:"file"`
	Redef bool  `json:"redef,omitempty"` // the file redefines a constant and must be rejected on that line
}

func c13Src(c *C13Case) string { return CanonMaybeDense(c.File) }

// ---- the twin: definitions removed, later documented uses written out ----

func expandToks(toks []string, consts map[string][]string) []string {
	var out []string
	for _, t := range toks {
		if v, ok := consts[t]; ok {
			out = append(out, v...)
		} else {
			out = append(out, t)
		}
	}
	return out
}

func expandCmd(c *Cmd, consts map[string][]string) *Cmd {
	if c == nil {
		return nil
	}
	nc := &Cmd{Name: c.Name, Parens: c.Parens}
	for _, a := range c.Args {
		na := &Arg{Text: a.Text, Moves: a.Moves, IsMv: a.IsMv}
		if a.Toks != nil {
			na.Toks = expandToks(a.Toks, consts)
		}
		nc.Args = append(nc.Args, na)
	}
	return nc
}

func expandExpr(e *Expr, consts map[string][]string) *Expr {
	if e == nil {
		return nil
	}
	ne := &Expr{K: e.K, L: expandExpr(e.L, consts), R: expandExpr(e.R, consts)}
	if e.Leaf != nil {
		l := *e.Leaf
		l.Operand = expandToks(l.Operand, consts)
		l.Value = expandToks(l.Value, consts)
		l.Auto = expandCmd(l.Auto, consts)
		if len(e.Leaf.Operand) == 0 {
			l.Operand = nil
		}
		if len(e.Leaf.Value) == 0 {
			l.Value = nil
		}
		ne.Leaf = &l
	}
	return ne
}

func expandBlock(b *Block, consts map[string][]string) *Block {
	if b == nil {
		return nil
	}
	nb := &Block{Stmts: []*Stmt{}}
	for _, s := range b.Stmts {
		switch s.K {
		case "cmd":
			nb.Stmts = append(nb.Stmts, &Stmt{K: "cmd", Cmd: expandCmd(s.Cmd, consts)})
		case "if":
			ni := &If{Else: expandBlock(s.If.Else, consts)}
			for _, a := range s.If.Arms {
				ni.Arms = append(ni.Arms, &Arm{Cond: expandExpr(a.Cond, consts), Body: expandBlock(a.Body, consts)})
			}
			nb.Stmts = append(nb.Stmts, &Stmt{K: "if", If: ni})
		case "while":
			nb.Stmts = append(nb.Stmts, &Stmt{K: "while", While: &While{Cond: expandExpr(s.While.Cond, consts), Body: expandBlock(s.While.Body, consts)}})
		case "dowhile":
			nb.Stmts = append(nb.Stmts, &Stmt{K: "dowhile", Do: &DoWh{Cond: expandExpr(s.Do.Cond, consts), Body: expandBlock(s.Do.Body, consts)}})
		case "switch":
			ns := &Switch{Auto: expandCmd(s.Switch.Auto, consts)}
			if s.Switch.Var != nil {
				ns.Var = expandToks(s.Switch.Var, consts)
			}
			for _, c := range s.Switch.Cases {
				nc := &Case{IsDefault: c.IsDefault, Body: expandBlock(c.Body, consts)}
				if !c.IsDefault {
					nc.Val = expandToks(c.Val, consts)
				}
				ns.Cases = append(ns.Cases, nc)
			}
			nb.Stmts = append(nb.Stmts, &Stmt{K: "switch", Switch: ns})
		case "ps":
			np := &PSStmt{Var: s.PS.Var}
			for _, c := range s.PS.Cases {
				np.Cases = append(np.Cases, &PSStmtCase{Key: c.Key, Brace: c.Brace, Body: expandBlock(c.Body, consts)})
			}
			nb.Stmts = append(nb.Stmts, &Stmt{K: "ps", PS: np})
		default:
			cp := *s
			nb.Stmts = append(nb.Stmts, &cp)
		}
	}
	return nb
}

// ExpandConsts returns the twin of a file: const statements removed, every
// later use at a documented site replaced by the fully expanded value.
func ExpandConsts(f *File) *File {
	consts := map[string][]string{}
	nf := &File{}
	for _, t := range f.Tops {
		switch t.K {
		case "const":
			consts[t.Const.Name] = expandToks(t.Const.Val, consts)
		case "script":
			nf.Tops = append(nf.Tops, &Top{K: "script", Script: &Script{Name: t.Script.Name, Scope: t.Script.Scope, Body: expandBlock(t.Script.Body, consts)}})
		case "mart":
			nm := &Mart{Name: t.Mart.Name, Scope: t.Mart.Scope, Items: []*Item{}}
			for _, it := range t.Mart.Items {
				if v, ok := consts[it.Name]; ok && it.PS == nil {
					nm.Items = append(nm.Items, &Item{Name: joinToks(v)})
				} else {
					nm.Items = append(nm.Items, it)
				}
			}
			nf.Tops = append(nf.Tops, &Top{K: "mart", Mart: nm})
		case "mapscripts":
			nm := &MapScripts{Name: t.Map.Name, Scope: t.Map.Scope}
			for _, e := range t.Map.Entries {
				ne := &MSEntry{Kind: e.Kind, Type: e.Type, Label: e.Label, Body: expandBlock(e.Body, consts)}
				for _, r := range e.Rows {
					ne.Rows = append(ne.Rows, &MSRow{Var: expandToks(r.Var, consts), Val: expandToks(r.Val, consts), Label: r.Label, Body: expandBlock(r.Body, consts)})
				}
				nm.Entries = append(nm.Entries, ne)
			}
			nf.Tops = append(nf.Tops, &Top{K: "mapscripts", Map: nm})
		default:
			nf.Tops = append(nf.Tops, t)
		}
	}
	return nf
}

// ---- generator ----

type tokSite struct {
	toks  *[]string
	idx   int
	paren bool // a value containing parentheses may be written out here
	item  *Item
}

func collectSites(f *File, from int) []tokSite {
	var sites []tokSite
	add := func(t *[]string, paren bool) {
		for i := range *t {
			sites = append(sites, tokSite{toks: t, idx: i, paren: paren})
		}
	}
	var cmdSites func(c *Cmd)
	cmdSites = func(c *Cmd) {
		if c == nil {
			return
		}
		for _, a := range c.Args {
			if a.Toks != nil {
				add(&a.Toks, true)
			}
		}
	}
	var exprSites func(e *Expr)
	exprSites = func(e *Expr) {
		walkLeaves(e, func(l *Leaf) {
			if l.Kind == "auto" {
				cmdSites(l.Auto)
			} else {
				add(&l.Operand, false)
			}
			if l.Op != "" && l.Op != "!" && l.Kind != "flag" && l.Kind != "defeated" {
				add(&l.Value, l.Wrap)
			}
		})
	}
	var blockSites func(b *Block)
	blockSites = func(b *Block) {
		if b == nil {
			return
		}
		for _, s := range b.Stmts {
			switch s.K {
			case "cmd":
				cmdSites(s.Cmd)
			case "if":
				for _, a := range s.If.Arms {
					exprSites(a.Cond)
					blockSites(a.Body)
				}
				blockSites(s.If.Else)
			case "while":
				exprSites(s.While.Cond)
				blockSites(s.While.Body)
			case "dowhile":
				blockSites(s.Do.Body)
				exprSites(s.Do.Cond)
			case "switch":
				if s.Switch.Auto != nil {
					cmdSites(s.Switch.Auto)
				} else {
					add(&s.Switch.Var, false)
				}
				for _, c := range s.Switch.Cases {
					if !c.IsDefault {
						add(&c.Val, true)
					}
					blockSites(c.Body)
				}
			}
		}
	}
	for i, t := range f.Tops {
		if i < from {
			continue
		}
		switch t.K {
		case "script":
			blockSites(t.Script.Body)
		case "mart":
			for _, it := range t.Mart.Items {
				sites = append(sites, tokSite{item: it})
			}
		case "mapscripts":
			for _, e := range t.Map.Entries {
				blockSites(e.Body)
				for _, r := range e.Rows {
					add(&r.Var, true)
					add(&r.Val, true)
					blockSites(r.Body)
				}
			}
		}
	}
	return sites
}

var c13Auto = AutoCfg{"checkitem": {VarName: "VAR_RESULT"}, "specialvar": {ArgPos: new(int)}}

var c13ValWords = []string{"010", "007", "-0", "true", "false", "TRUE", "1", "2", "7", "0x10", "-3", "FLAG_BASE", "VAR_BASE", "ITEM_X", "ITEM_NONE", "step_end", "+", "-", "*", "|", "&"}

type cdef struct {
	name   string
	paren  bool
	single bool // value is one identifier token
}

// constify inserts 1-5 const definitions at random positions of the file, uses them at
// documented sites (before and after their definition) and plants the names at undocumented ones.
func constify(t *rapid.T, f *File, auto AutoCfg) []cdef {
	nconst := rapid.IntRange(1, 5).Draw(t, "nconst")
	var defs []cdef
	for i := 0; i < nconst; i++ {
		name := fmt.Sprintf("K%d", i)
		if i == 0 && rapid.IntRange(0, 3).Draw(t, "unicodename") == 0 {
			name = rapid.SampledFrom([]string{"Éclair", "ΩMEGA", "ñ_item", "KÉ"}).Draw(t, "uname")
		}
		if i == nconst-1 && rapid.IntRange(0, 4).Draw(t, "resultvarname") == 0 {
			// a constant that happens to be named like the result var of an AutoVar command:
			// written uses of that name are substituted, the implicit result var of the command is not
			name = "VAR_RESULT"
		}
		var val []string
		n := rapid.IntRange(1, 4).Draw(t, "nval")
		open := rapid.IntRange(0, 3).Draw(t, "parens") == 0
		if open {
			val = append(val, "(")
		}
		for k := 0; k < n; k++ {
			if rapid.IntRange(0, 3).Draw(t, "useother") == 0 {
				// another constant: defined earlier (expanded), later (stays as written) or this one itself
				val = append(val, fmt.Sprintf("K%d", rapid.IntRange(0, nconst-1).Draw(t, "other")))
			} else {
				val = append(val, rapid.SampledFrom(c13ValWords).Draw(t, "valword"))
			}
		}
		if open {
			val = append(val, ")")
		}
		pos := rapid.IntRange(0, len(f.Tops)).Draw(t, "constpos")
		top := &Top{K: "const", Const: &Const{Name: name, Val: val}}
		f.Tops = append(f.Tops[:pos], append([]*Top{top}, f.Tops[pos:]...)...)
	}
	// what each constant expands to, in file order
	{
		consts := map[string][]string{}
		for _, tp := range f.Tops {
			if tp.K != "const" {
				continue
			}
			v := expandToks(tp.Const.Val, consts)
			consts[tp.Const.Name] = v
			d := cdef{name: tp.Const.Name}
			for _, x := range v {
				if x == "(" {
					d.paren = true
				}
			}
			// (a boolean keyword cannot be written where the grammar wants an identifier - a mart item -, so the
			// written-out twin of such a use does not exist)
			d.single = len(v) == 1 && tokClass(v[0]) == 'w' && !strings.EqualFold(v[0], "true") && !strings.EqualFold(v[0], "false")
			defs = append(defs, d)
		}
	}
	// a constant is never the last statement directly... (it may be; its value then simply extends to the end of the file)
	// uses at documented sites (before and after the definition)
	sites := collectSites(f, 0)
	if len(sites) > 0 && rapid.IntRange(0, 4).Draw(t, "family") == 0 {
		// a family: two constants that both extend the same longer constant, used after both are defined
		// (each keeps its own value)
		fam := []*Top{
			{K: "const", Const: &Const{Name: "FAM_BASE", Val: []string{"VAR_BASE", "+", "2", "*", "3"}}},
			{K: "const", Const: &Const{Name: "FAM_A", Val: []string{"FAM_BASE", "+", "1"}}},
			{K: "const", Const: &Const{Name: "FAM_B", Val: []string{"FAM_BASE", "+", "2"}}},
		}
		f.Tops = append(fam, f.Tops...)
		for i, n := 0, rapid.IntRange(1, 3).Draw(t, "famuses"); i < n; i++ {
			s := sites[rapid.IntRange(0, len(sites)-1).Draw(t, "famsite")]
			if s.item == nil {
				(*s.toks)[s.idx] = rapid.SampledFrom([]string{"FAM_A", "FAM_B", "FAM_BASE"}).Draw(t, "famname")
			}
		}
	}
	if len(sites) > 0 {
		nuse := rapid.IntRange(0, min(12, len(sites))).Draw(t, "nuses")
		for i := 0; i < nuse; i++ {
			s := sites[rapid.IntRange(0, len(sites)-1).Draw(t, "site")]
			d := defs[rapid.IntRange(0, len(defs)-1).Draw(t, "which")]
			if s.item != nil {
				if d.single && s.item.PS == nil {
					s.item.Name = d.name
				}
				continue
			}
			if d.paren && !s.paren {
				continue
			}
			(*s.toks)[s.idx] = d.name
			if lc := strings.ToLower(d.name); lc != d.name && rapid.IntRange(0, 7).Draw(t, "othercase") == 0 {
				// an identifier that differs from the constant's name only in letter case is another identifier
				(*s.toks)[s.idx] = lc
				continue
			}
			if rapid.IntRange(0, 3).Draw(t, "amongothers") == 0 {
				// the constant is one token among several: BASE + K
				nt := append([]string{}, (*s.toks)[:s.idx]...)
				if s.paren && rapid.Bool().Draw(t, "innergroup") {
					// ... inside an inner parenthesised group: ( BASE + K ) * 2
					nt = append(nt, "(", "BASE", "+", d.name, ")", "*", "2")
				} else {
					nt = append(nt, "BASE", "+", d.name)
				}
				nt = append(nt, (*s.toks)[s.idx+1:]...)
				*s.toks = nt
			}
		}
	}
	// some commands get richer arguments: several tokens, nested parentheses, a constant directly before '('
	{
		var cn []string
		for _, d := range defs {
			cn = append(cn, d.name)
		}
		enames, eblocks := EntryBlocks(f)
		for _, n := range enames {
			walkBlocks(eblocks[n], func(b *Block) {
				for _, s := range b.Stmts {
					if s.K != "cmd" || s.Cmd.Name == "end" || s.Cmd.Name == "return" || s.Cmd.Name == "goto" {
						continue
					}
					if _, isAuto := auto[s.Cmd.Name]; isAuto {
						continue
					}
					switch rapid.IntRange(0, 7).Draw(t, "richargs") {
					case 0:
						s.Cmd.Args = c10Args(t, cn)
					case 1:
						k := cn[rapid.IntRange(0, len(cn)-1).Draw(t, "macro")]
						s.Cmd.Args = append(s.Cmd.Args, &Arg{Toks: []string{k, "(", "ROUTE101", ")"}}, &Arg{Toks: []string{"GRP", "(", k, ")"}})
					}
				}
			})
		}
	}
	// plants at undocumented sites
	names, blocks := EntryBlocks(f)
	for _, n := range names {
		walkBlocks(blocks[n], func(b *Block) {
			for _, s := range b.Stmts {
				if s.K == "cmd" && s.Cmd.Name != "end" && s.Cmd.Name != "return" && s.Cmd.Name != "goto" && rapid.IntRange(0, 9).Draw(t, "plantcmd") == 0 {
					if _, auto := auto[s.Cmd.Name]; !auto {
						s.Cmd.Name = defs[rapid.IntRange(0, len(defs)-1).Draw(t, "which")].name
					}
				}
				if s.K == "cmd" {
					for _, a := range s.Cmd.Args {
						if a.Text != nil {
							switch rapid.IntRange(0, 5).Draw(t, "planttext") {
							case 0:
								a.Text.Lit.Parts[0] = defs[0].name + " " + a.Text.Lit.Parts[0]
							case 1:
								// the whole literal is exactly the name of a constant
								d := defs[rapid.IntRange(0, len(defs)-1).Draw(t, "which")]
								a.Text.Lit = &StrLit{Parts: []string{d.name}, Type: a.Text.Lit.Type}
							}
						}
						for _, st := range a.Moves {
							if !st.Comma && st.PS == nil && rapid.IntRange(0, 3).Draw(t, "plantstep") == 0 {
								st.Name = defs[0].name
							}
						}
					}
				}
			}
		})
	}
	for _, tp := range f.Tops {
		switch tp.K {
		case "movement":
			for _, st := range tp.Movement.Steps {
				if !st.Comma && st.PS == nil && rapid.IntRange(0, 3).Draw(t, "plantstep") == 0 {
					st.Name = defs[rapid.IntRange(0, len(defs)-1).Draw(t, "which")].name
				}
			}
		case "text":
			if tp.Text.Val != nil && rapid.IntRange(0, 2).Draw(t, "planttext") == 0 {
				tp.Text.Val.Lit.Parts[0] = defs[0].name
			}
		case "mapscripts":
			for _, e := range tp.Map.Entries {
				if e.Kind == "plain" && rapid.IntRange(0, 2).Draw(t, "plantms") == 0 {
					e.Label = defs[0].name
				}
			}
		}
	}
	// a label (and a goto to it) named like a constant: the label stays, the argument is substituted
	if scripts := f.Scripts(); len(scripts) > 0 && rapid.IntRange(0, 3).Draw(t, "plantlabel") == 0 {
		d := defs[rapid.IntRange(0, len(defs)-1).Draw(t, "which")]
		sc := scripts[rapid.IntRange(0, len(scripts)-1).Draw(t, "labelscript")]
		pos := rapid.IntRange(0, len(sc.Body.Stmts)).Draw(t, "labelpos")
		sc.Body.Stmts = append(sc.Body.Stmts[:pos], append([]*Stmt{sLabel(d.name)}, sc.Body.Stmts[pos:]...)...)
	}
	return defs
}

func genC13(t *rapid.T) *C13Case {
	cfg := DefaultFileCfg()
	cfg.CF.MaxDepth = 3
	cfg.CF.Auto = c13Auto
	cfg.CF.AutoP = 6
	cfg.CF.SymCases = true
	cfg.MaxTops = 5
	cfg.Raws = false
	f := GenFile(t, cfg)
	c := &C13Case{File: f}
	defs := constify(t, f, cfg.CF.Auto)
	// redefinition
	if rapid.IntRange(0, 7).Draw(t, "redef") == 0 {
		c.Redef = true
		d := defs[rapid.IntRange(0, len(defs)-1).Draw(t, "which")]
		first := 0
		for j, tp := range f.Tops {
			if tp.K == "const" && tp.Const.Name == d.name {
				first = j
			}
		}
		pos := rapid.IntRange(first+1, len(f.Tops)).Draw(t, "redefpos")
		top := &Top{K: "const", Const: &Const{Name: d.name, Val: []string{"99"}}}
		f.Tops = append(f.Tops[:pos], append([]*Top{top}, f.Tops[pos:]...)...)
	}
	return c
}

func checkC13(c *C13Case) *Violation {
	st := stat("C13")
	pr := PrintFile(c.File)
	pl := pr.Layout(CanonGap(pr.Toks))
	src := pl.Src
	o := Opts{Optimize: true, FontPath: "@repo", Auto: c13Auto}
	r1 := Compile(src, o)
	if r1.Panic != nil || r1.Budget {
		return viol("crash", "%s\n--- source\n%s", r1.Describe(), src)
	}
	if c.Redef {
		// find the second definition of the redefined constant
		seen := map[string]bool{}
		for _, tp := range c.File.Tops {
			if tp.K != "const" {
				continue
			}
			if seen[tp.Const.Name] {
				if r1.Err == nil {
					return viol("redefinition-accepted", "constant %s is defined twice but the program was accepted\n--- source\n%s", tp.Const.Name, src)
				}
				lo, hi := pl.SpanLines(tp.Const.Span)
				if r1.PErr == nil || r1.PErr.LineNumberStart < lo || r1.PErr.LineNumberStart > hi {
					// another error may legitimately come first (it must then be before this line)
					if r1.PErr != nil && r1.PErr.LineNumberStart < lo {
						st.Label("other-error-first")
						return nil
					}
					return viol("redefinition-line", "the redefinition of %s is on lines %d-%d, the error is: %v\n--- source\n%s", tp.Const.Name, lo, hi, r1.Err, src)
				}
				st.Eval(src, false, nil, "redefinition-rejected")
				return nil
			}
			seen[tp.Const.Name] = true
		}
	}
	twin := ExpandConsts(c.File)
	tsrc := Canon(twin)
	r2 := Compile(tsrc, o)
	if r2.Panic != nil || r2.Budget {
		return viol("crash", "%s\n--- source\n%s", r2.Describe(), tsrc)
	}
	if (r1.Err == nil) != (r2.Err == nil) {
		return viol("acceptance-differs", "with constants: %s; with the values written out: %s\n--- source\n%s--- written out\n%s", r1.Describe(), r2.Describe(), src, tsrc)
	}
	if r1.Err != nil {
		st.Label("both-rejected")
		st.Note("last_rejection", clip(r1.Err.Error()+"\n"+src, 800))
		return nil
	}
	if r1.Out != r2.Out {
		return viol("output-differs", "the output with constants differs from the output with their values written out\n--- source\n%s--- written out\n%s--- output\n%s--- output of written out\n%s", src, tsrc, r1.Out, r2.Out)
	}
	// non-trivial: a constant defined from another constant, and >= 3 documented uses
	fromOther := false
	uses := 0
	for _, tp := range c.File.Tops {
		if tp.K == "const" {
			for _, v := range tp.Const.Val {
				if strings.HasPrefix(v, "K") {
					fromOther = true
				}
			}
		}
	}
	for _, s := range collectSites(c.File, 0) {
		if s.item != nil {
			if strings.HasPrefix(s.item.Name, "K") {
				uses++
			}
		} else if strings.HasPrefix((*s.toks)[s.idx], "K") {
			uses++
		}
	}
	st.Eval(src, fromOther && uses >= 3, func() any { return clip(src, 1200) }, fmt.Sprintf("uses=%d", min(uses, 6)))
	return nil
}

func init() { register("C13", "TestC13_Consts", checkC13, c13Src) }

func TestC13_Regress(t *testing.T) { runRegress(t, "C13") }

func TestC13_Consts(t *testing.T) {
	st := stat("C13")
	st.SetRule("whole files with 1-5 const definitions (values of 1-4 tokens: numbers, identifiers, arithmetic operators, balanced parentheses, earlier constants) inserted at random positions and used (before and after their definition) at every documented site: command and AutoVar arguments, flag/var/defeated operands, comparison values incl. value(), switch operands, case values, map-script table vars and values, mart items; the same names planted as command names, movement steps, text content, labels and map-script labels; 1 in 8 files redefines a constant. oracle: byte-identical output and same acceptance as the twin with definitions removed and later documented uses written out; redefinition rejected on its own line. non-trivial = a constant defined from another constant and >= 3 uses; distinct by source text")
	st.Assume("values with parentheses are only used where the written-out form is accepted too (arguments, value(), case values, table entries)", "no commas, colons, braces or boolean operators in constant values")
	runRapid(t, "C13", "TestC13_Consts", genC13, checkC13, c13Src)
}
