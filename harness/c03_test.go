package harness

import (
	"fmt"
	"testing"

	"pgregory.net/rapid"
)

// C03: switch selects exactly the matching body, with shared, empty and default cases.

type C03Case struct {
	File   *File             `json:"file"`
	Var    string            `json:"var"`    // the switched var
	Values []int             `json:"values"` // values to drive the var with (case values + a non-matching one)
	Fixed  map[string]int    `json:"fixed,omitempty"`
	Seeds  []uint64          `json:"seeds"`
	Auto   AutoCfg           `json:"auto,omitempty"`
	Meta   map[string]string `json:"meta,omitempty"`
}

func c03Src(c *C03Case) string { return CanonMaybeDense(c.File) }

func findSwitches(b *Block, out *[]*Switch) {
	walkBlocks(b, func(bb *Block) {
		for _, s := range bb.Stmts {
			if s.K == "switch" {
				*out = append(*out, s.Switch)
			}
		}
	})
}

func switchInteresting(sw *Switch) bool {
	for i, c := range sw.Cases {
		if len(c.Body.Stmts) == 0 {
			return true
		}
		if c.IsDefault && i != len(sw.Cases)-1 {
			return true
		}
	}
	return false
}

func checkC03(c *C03Case) *Violation {
	st := stat("C03")
	src := c03Src(c)
	var worlds []*World
	for _, v := range c.Values {
		for _, s := range c.Seeds {
			fx := map[string]int{"var:" + c.Var: v}
			for k, x := range c.Fixed {
				fx[k] = x
			}
			worlds = append(worlds, &World{Seed: s*1000 + uint64(v&0xff), Fixed: fx})
			if ctx := c.Meta["ctx"]; ctx == "10" || ctx == "11" || ctx == "12" {
				// the other switch's var also takes its second interesting value (7: trailing body-less case, 90: default)
				fy := map[string]int{}
				for k, x := range fx {
					fy[k] = x
				}
				fy["var:VAR_OUTER"] = 97 - fx["var:VAR_OUTER"]
				worlds = append(worlds, &World{Seed: s*1000 + uint64(v&0xff), Fixed: fy})
			}
		}
	}
	differs := false
	for _, opt := range []bool{false, true} {
		res := CompileMaybeLM(src, Opts{Optimize: opt, Auto: c.Auto})
		if !res.OK() {
			if res.Panic != nil || res.Budget {
				return viol("crash", "opt=%v %s\n--- source\n%s", opt, res.Describe(), src)
			}
			return viol("rejected", "a well-formed switch was rejected: %v\n--- source\n%s", res.Err, src)
		}
		model := ExpandConsts(c.File)
		ref := NewRef(model, c.Auto)
		a := ParseAsm(res.Out)
		names, _ := EntryBlocks(model)
		for _, name := range names {
			seen := map[string]bool{}
			for wi, w := range worlds {
				want := ref.Run(name, w)
				got := a.Run(name, w)
				if wi%(len(worlds)/len(c.Values)) == 0 { // same seed, different values
					seen[want.String()] = true
				}
				if want.String() != got.String() {
					return viol("switch-selection", "opt=%v %s=%d entry=%s\nwant %s\ngot  %s\n--- source\n%s--- output\n%s", opt, c.Var, w.Fixed["var:"+c.Var], name, want, got, src, res.Out)
				}
			}
			if len(seen) >= 2 {
				differs = true
			}
		}
	}
	var sws []*Switch
	for _, sc := range c.File.Scripts() {
		findSwitches(sc.Body, &sws)
	}
	interesting := false
	for _, sw := range sws {
		if switchInteresting(sw) {
			interesting = true
		}
	}
	st.Eval(src, interesting && differs, func() any { return clip(src, 1200) }, fmt.Sprintf("ctx=%s", c.Meta["ctx"]))
	st.Add("runs", int64(len(worlds)*2))
	return nil
}

// ---- generator ----

type c03gen struct {
	t    *rapid.T
	nCmd int
}

func (g *c03gen) cmd() *Stmt {
	g.nCmd++
	return sCmd(&Cmd{Name: fmt.Sprintf("c%d", g.nCmd)})
}

// body kinds: 0 empty, 1 commands, 2 commands+break at the end, 3 break in the middle,
// 4 break inside a nested if, 5 break first (dead code after), 6 nested if without break
func (g *c03gen) body(kind int) *Block {
	b := &Block{Stmts: []*Stmt{}}
	switch kind {
	case 0:
	case 1:
		b.Stmts = append(b.Stmts, g.cmd())
		if rapid.Bool().Draw(g.t, "two") {
			b.Stmts = append(b.Stmts, g.cmd())
		}
	case 2:
		b.Stmts = append(b.Stmts, g.cmd(), sBreak())
	case 3:
		b.Stmts = append(b.Stmts, g.cmd(), sBreak(), g.cmd())
	case 4:
		cond := eLeaf(&Leaf{Kind: "flag", Operand: []string{fmt.Sprintf("FLAG_%d", rapid.IntRange(0, 2).Draw(g.t, "bf"))}})
		b.Stmts = append(b.Stmts, g.cmd(), &Stmt{K: "if", If: &If{Arms: []*Arm{{Cond: cond, Body: &Block{Stmts: []*Stmt{g.cmd(), sBreak()}}}}}}, g.cmd())
	case 5:
		b.Stmts = append(b.Stmts, sBreak(), g.cmd())
	case 7:
		b.Stmts = append(b.Stmts, sBreak())
	case 8: // a do-while inside the body, then a break of the switch
		cond := eLeaf(&Leaf{Kind: "flag", Operand: []string{fmt.Sprintf("FLAG_%d", rapid.IntRange(0, 2).Draw(g.t, "bf"))}})
		b.Stmts = append(b.Stmts, &Stmt{K: "dowhile", Do: &DoWh{Cond: cond, Body: &Block{Stmts: []*Stmt{g.cmd()}}}}, g.cmd(), sBreak())
	case 9: // a while loop with its own break inside the body, then commands
		cond := eLeaf(&Leaf{Kind: "flag", Operand: []string{fmt.Sprintf("FLAG_%d", rapid.IntRange(0, 2).Draw(g.t, "bf"))}})
		b.Stmts = append(b.Stmts, &Stmt{K: "while", While: &While{Cond: cond, Body: &Block{Stmts: []*Stmt{g.cmd(), sBreak()}}}}, g.cmd())
	case 6:
		cond := eLeaf(&Leaf{Kind: "flag", Operand: []string{fmt.Sprintf("FLAG_%d", rapid.IntRange(0, 2).Draw(g.t, "bf"))}})
		b.Stmts = append(b.Stmts, &Stmt{K: "if", If: &If{Arms: []*Arm{{Cond: cond, Body: &Block{Stmts: []*Stmt{g.cmd()}}}}, Else: &Block{Stmts: []*Stmt{g.cmd()}}}})
	}
	return b
}

func caseValTok(v int, form int) string {
	switch form {
	case 1:
		return fmt.Sprintf("0x%X", v)
	case 2:
		return fmt.Sprintf("SYM_%d", v)
	}
	return fmt.Sprint(v)
}

func caseValToks(v int, form int) []string {
	if form == 3 {
		return []string{fmt.Sprintf("BASE_%d", v), "+", "1"}
	}
	return []string{caseValTok(v, form)}
}

// wrapCtx places the switch statement in one of the contexts of the statement.
func wrapCtx(ctx int, sw *Stmt, pre, post, in1, in2 *Stmt) (*File, map[string]int) {
	fixed := map[string]int{}
	var body []*Stmt
	switch ctx {
	case 0: // only statement
		body = []*Stmt{sw}
	case 1: // first statement, something after
		body = []*Stmt{sw, post}
	case 2: // last statement, something before
		body = []*Stmt{pre, sw}
	case 3: // inside while
		cond := eLeaf(&Leaf{Kind: "flag", Operand: []string{"FLAG_LOOP"}})
		body = []*Stmt{pre, {K: "while", While: &While{Cond: cond, Body: &Block{Stmts: []*Stmt{in1, sw, in2}}}}, post}
	case 4: // inside do-while, switch last in the body
		cond := eLeaf(&Leaf{Kind: "flag", Operand: []string{"FLAG_LOOP"}})
		body = []*Stmt{{K: "dowhile", Do: &DoWh{Cond: cond, Body: &Block{Stmts: []*Stmt{in1, sw}}}}, post}
	case 5: // inside another switch's case body
		outer := &Switch{Var: []string{"VAR_OUTER"}, Cases: []*Case{
			{Val: []string{"7"}, Body: &Block{Stmts: []*Stmt{in1, sw, in2}}},
			{IsDefault: true, Body: &Block{Stmts: []*Stmt{pre}}},
		}}
		fixed["var:VAR_OUTER"] = 7
		body = []*Stmt{{K: "switch", Switch: outer}, post}
	case 6: // inside an if arm
		cond := eLeaf(&Leaf{Kind: "flag", Operand: []string{"FLAG_ARM"}})
		fixed["flag:FLAG_ARM"] = 1
		body = []*Stmt{{K: "if", If: &If{Arms: []*Arm{{Cond: cond, Body: &Block{Stmts: []*Stmt{sw}}}}, Else: &Block{Stmts: []*Stmt{pre}}}}, post}
	case 7: // condition-less while, switch first
		body = []*Stmt{{K: "while", While: &While{Body: &Block{Stmts: []*Stmt{sw, in2}}}}, post}
	case 8: // inside another switch's case body, directly followed by a bare return that ends the body
		outer := &Switch{Var: []string{"VAR_OUTER"}, Cases: []*Case{
			{Val: []string{"7"}, Body: &Block{Stmts: []*Stmt{in1, sw, sCmd(&Cmd{Name: "return"})}}},
			{IsDefault: true, Body: &Block{Stmts: []*Stmt{pre}}},
		}}
		fixed["var:VAR_OUTER"] = 7
		body = []*Stmt{{K: "switch", Switch: outer}, post}
	case 10: // a sibling switch with a default body and a trailing body-less case BEFORE the switch
		sib := &Switch{Var: []string{"VAR_OUTER"}, Cases: []*Case{
			{IsDefault: true, Body: &Block{Stmts: []*Stmt{pre}}},
			{Val: []string{"7"}, Body: &Block{Stmts: []*Stmt{}}},
		}}
		fixed["var:VAR_OUTER"] = 7
		body = []*Stmt{{K: "switch", Switch: sib}, in1, sw, post}
	case 11: // the same sibling AFTER the switch
		sib := &Switch{Var: []string{"VAR_OUTER"}, Cases: []*Case{
			{IsDefault: true, Body: &Block{Stmts: []*Stmt{in2}}},
			{Val: []string{"7"}, Body: &Block{Stmts: []*Stmt{}}},
			{Val: []string{"8"}, Body: &Block{Stmts: []*Stmt{}}},
		}}
		fixed["var:VAR_OUTER"] = 7
		body = []*Stmt{pre, sw, in1, {K: "switch", Switch: sib}, post}
	case 12: // inside the default body of a switch that has a trailing body-less case
		outer := &Switch{Var: []string{"VAR_OUTER"}, Cases: []*Case{
			{IsDefault: true, Body: &Block{Stmts: []*Stmt{in1, sw, in2}}},
			{Val: []string{"7"}, Body: &Block{Stmts: []*Stmt{}}},
		}}
		fixed["var:VAR_OUTER"] = 90
		body = []*Stmt{pre, {K: "switch", Switch: outer}, post}
	default: // inside an if arm, directly followed by end
		cond := eLeaf(&Leaf{Kind: "flag", Operand: []string{"FLAG_ARM"}})
		fixed["flag:FLAG_ARM"] = 1
		body = []*Stmt{{K: "if", If: &If{Arms: []*Arm{{Cond: cond, Body: &Block{Stmts: []*Stmt{sw, sCmd(&Cmd{Name: "end"})}}}}}}, post}
	}
	return &File{Tops: []*Top{{K: "script", Script: &Script{Name: "S", Body: &Block{Stmts: body}}}}}, fixed
}

const c03Contexts = 13

func c03Values(sw *Switch) []int {
	var vals []int
	used := map[int]bool{}
	for _, c := range sw.Cases {
		if !c.IsDefault {
			v := Val(joinToks(c.Val))
			vals = append(vals, v)
			used[v] = true
		}
	}
	for v := 90; ; v++ {
		if !used[v] {
			vals = append(vals, v)
			break
		}
	}
	return vals
}

func genC03(t *rapid.T) *C03Case {
	g := &c03gen{t: t}
	sw := &Switch{Var: []string{"VAR_SW"}}
	nc := rapid.IntRange(1, 6).Draw(t, "ncases")
	defPos := rapid.IntRange(-3, nc-1).Draw(t, "defpos")
	vals := rapid.Permutation([]int{0, 1, 2, 3, 4, 5, 6, 7}).Draw(t, "vals")
	ctx := rapid.IntRange(0, c03Contexts-1).Draw(t, "ctx")
	inLoop := ctx == 3 || ctx == 4 || ctx == 7
	for i := 0; i < nc; i++ {
		cs := &Case{}
		if i == defPos {
			cs.IsDefault = true
		} else {
			cs.Val = caseValToks(vals[i], rapid.IntRange(0, 4).Draw(t, "vform"))
		}
		kind := rapid.SampledFrom([]int{0, 0, 0, 1, 1, 2, 3, 4, 5, 6, 7, 8, 9}).Draw(t, "bodykind")
		cs.Body = g.body(kind)
		// continue is accepted only directly before '}' : last statement of the last case
		if inLoop && i == nc-1 && kind != 0 && rapid.IntRange(0, 3).Draw(t, "cont") == 0 {
			cs.Body.Stmts = append(cs.Body.Stmts, sContinue())
		}
		sw.Cases = append(sw.Cases, cs)
	}
	// the values are fixed before constants are written in: a case value may be given through a
	// poryscript constant (alone, or as one token among several), the selected body is the same
	var consts []*Top
	if rapid.IntRange(0, 3).Draw(t, "consts") == 0 {
		for _, cs := range sw.Cases {
			if cs.IsDefault {
				continue
			}
			switch rapid.IntRange(0, 3).Draw(t, "constform") {
			case 0: // the whole value is a constant
				name := fmt.Sprintf("CK%d", len(consts))
				consts = append(consts, &Top{K: "const", Const: &Const{Name: name, Val: append([]string{}, cs.Val...)}})
				cs.Val = []string{name}
			case 1: // BASE + value, BASE a constant
				name := fmt.Sprintf("CK%d", len(consts))
				consts = append(consts, &Top{K: "const", Const: &Const{Name: name, Val: []string{"100"}}})
				cs.Val = append([]string{"100", "+"}, cs.Val...)
			}
		}
	}
	values := c03Values(sw)
	for _, tp := range consts {
		if len(tp.Const.Val) == 1 && tp.Const.Val[0] == "100" {
			for _, cs := range sw.Cases {
				if len(cs.Val) > 2 && cs.Val[0] == "100" && cs.Val[1] == "+" {
					cs.Val[0] = tp.Const.Name
					break
				}
			}
		}
	}
	f, fixed := wrapCtx(ctx, &Stmt{K: "switch", Switch: sw}, sCmd(&Cmd{Name: "pre"}), sCmd(&Cmd{Name: "post"}), sCmd(&Cmd{Name: "in1"}), sCmd(&Cmd{Name: "in2"}))
	f.Tops = append(consts, f.Tops...)
	swVar := "VAR_SW"
	if rapid.IntRange(0, 4).Draw(t, "operandexpr") == 0 {
		// the operand may be any token sequence: var(VAR_SW + 1) switches on the var named by the whole expression
		sw.Var = []string{"VAR_SW", "+", "1"}
		swVar = "VAR_SW + 1"
	}
	return &C03Case{File: f, Var: swVar, Values: values, Fixed: fixed,
		Seeds: []uint64{rapid.Uint64Range(1, 1<<30).Draw(t, "seed"), rapid.Uint64Range(1, 1<<30).Draw(t, "seed2")},
		Meta:  map[string]string{"ctx": fmt.Sprint(ctx)}}
}

func init() {
	register("C03", "TestC03_Switch", checkC03, c03Src)
}

const c03Rule = "one switch of 1-6 cases (distinct decimal/hex/symbolic/multi-token values, in a quarter of the cases written through poryscript constants - the whole value or one token of it -, default absent or at any position, bodies: empty, commands, a lone break, break at the end / in the middle / inside a nested if / first, nested if, a do-while / while loop inside the body; continue at the end of the last case inside loops) in 13 contexts (only/first/last statement, followed by a bare return / end inside a nested block, inside while, do-while, condition-less while, another switch's body, an if arm, after / before a sibling switch that has a default body and trailing body-less cases, inside the default body of such a switch - there the other switch's var takes both its values); for EVERY case value and one value matching nothing a scripted world fixes the var and the assembly run must equal the reference run, optimize off and on; plus exhaustive enumeration of all case lists with <=3 entries (thorough 4, 5 with fewer body kinds). non-trivial = the list has an empty case or a default that is not last AND two values produced different outcomes; distinct by source text"

func TestC03_Regress(t *testing.T) { runRegress(t, "C03") }

func TestC03_Switch(t *testing.T) {
	st := stat("C03")
	st.SetRule(c03Rule)
	st.Assume("distinct case values of one switch denote distinct numbers", "condition tests have no side effects")
	runRapid(t, "C03", "TestC03_Switch", genC03, checkC03, c03Src)
}

// exhaustive: all case lists with n entries over the body kinds x default position x contexts
func TestC03_Enum(t *testing.T) {
	st := stat("C03")
	st.SetRule(c03Rule)
	activateKnown("C03")
	defer flushFail("C03", "TestC03_Switch")
	type scope struct {
		n     int
		kinds []int
		ctxs  []int
	}
	scopes := []scope{{1, []int{0, 1, 2, 3, 4, 5, 7}, []int{0, 1, 2, 3, 4, 5, 6, 7}}, {2, []int{0, 1, 2, 3, 4, 5, 7}, []int{0, 1, 2, 3, 4, 5, 6, 7, 10, 11, 12}}, {3, []int{0, 1, 2, 5, 7}, []int{0, 1, 3, 5, 10, 11}}}
	if thorough() {
		scopes = append(scopes, scope{3, []int{0, 1, 2, 3, 4, 5, 7}, []int{0, 1, 2, 3, 4, 5, 6, 7}}, scope{4, []int{0, 1, 2, 5, 7}, []int{0, 1, 3, 5}}, scope{5, []int{0, 1, 7}, []int{0, 1, 3}})
	}
	idx, count := 0, 0
	for _, sc := range scopes {
		total := 1
		for i := 0; i < sc.n; i++ {
			total *= len(sc.kinds)
		}
		for code := 0; code < total; code++ {
			for defPos := -1; defPos < sc.n; defPos++ {
				for _, ctx := range sc.ctxs {
					idx++
					if idx%shardCount() != shardIdx() || t.Failed() {
						continue
					}
					count++
					g := &c03gen{}
					sw := &Switch{Var: []string{"VAR_SW"}}
					x := code
					for i := 0; i < sc.n; i++ {
						kind := sc.kinds[x%len(sc.kinds)]
						x /= len(sc.kinds)
						cs := &Case{}
						if i == defPos {
							cs.IsDefault = true
						} else {
							cs.Val = []string{fmt.Sprint(i + 1)}
						}
						cs.Body = g.enumBody(kind)
						sw.Cases = append(sw.Cases, cs)
					}
					f, fixed := wrapCtx(ctx, &Stmt{K: "switch", Switch: sw}, sCmd(&Cmd{Name: "pre"}), sCmd(&Cmd{Name: "post"}), sCmd(&Cmd{Name: "in1"}), sCmd(&Cmd{Name: "in2"}))
					c := &C03Case{File: f, Var: "VAR_SW", Values: c03Values(sw), Fixed: fixed, Seeds: []uint64{uint64(idx)}, Meta: map[string]string{"ctx": fmt.Sprint(ctx)}}
					if !runCase(t, "C03", "TestC03_Switch", c, checkC03, c03Src) {
						t.Fail()
					}
				}
			}
		}
	}
	st.Add("enumerated_switches", int64(count))
	st.Done(fmt.Sprintf("all case lists with <=%d entries (body kinds, default positions, contexts as listed in the rule)", pick(3, 5)), !t.Failed())
}

// enumBody is body() without random draws.
func (g *c03gen) enumBody(kind int) *Block {
	b := &Block{Stmts: []*Stmt{}}
	switch kind {
	case 0:
	case 1:
		b.Stmts = append(b.Stmts, g.cmd())
	case 2:
		b.Stmts = append(b.Stmts, g.cmd(), sBreak())
	case 3:
		b.Stmts = append(b.Stmts, g.cmd(), sBreak(), g.cmd())
	case 4:
		cond := eLeaf(&Leaf{Kind: "flag", Operand: []string{"FLAG_0"}})
		b.Stmts = append(b.Stmts, g.cmd(), &Stmt{K: "if", If: &If{Arms: []*Arm{{Cond: cond, Body: &Block{Stmts: []*Stmt{g.cmd(), sBreak()}}}}}}, g.cmd())
	case 5:
		b.Stmts = append(b.Stmts, sBreak(), g.cmd())
	case 7:
		b.Stmts = append(b.Stmts, sBreak())
	}
	return b
}
