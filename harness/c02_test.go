package harness

import (
	"fmt"
	"strings"
	"testing"

	"pgregory.net/rapid"
)

// C02: conditions branch on the value of the written boolean expression.

type C02Case struct {
	Ctx  int    `json:"ctx"` // 0 if/else, 1 elif, 2 while+break, 3 do-while, 4 while (loop), 5-7 if / do-while / while as the script's last statement
	Expr *Expr  `json:"expr"`
	Seed uint64 `json:"seed"`
}

// AutoVar command whose result var is its first argument: every such leaf has a var of its own
var c02Auto = AutoCfg{"specialvar": {ArgPos: new(int)}}

func c02File(c *C02Case) *File {
	yes := sCmd(&Cmd{Name: "yes"})
	no := sCmd(&Cmd{Name: "no"})
	var body []*Stmt
	switch c.Ctx {
	case 0:
		body = []*Stmt{{K: "if", If: &If{Arms: []*Arm{{Cond: c.Expr, Body: &Block{Stmts: []*Stmt{yes}}}}, Else: &Block{Stmts: []*Stmt{no}}}}}
	case 1:
		pre := eLeaf(&Leaf{Kind: "flag", Operand: []string{"FLAG_PRE"}})
		body = []*Stmt{{K: "if", If: &If{Arms: []*Arm{
			{Cond: pre, Body: &Block{Stmts: []*Stmt{sCmd(&Cmd{Name: "pre"})}}},
			{Cond: c.Expr, Body: &Block{Stmts: []*Stmt{yes}}},
		}, Else: &Block{Stmts: []*Stmt{no}}}}, sCmd(&Cmd{Name: "after"})}
	case 2:
		body = []*Stmt{{K: "while", While: &While{Cond: c.Expr, Body: &Block{Stmts: []*Stmt{yes, sBreak()}}}}, no}
	case 3:
		body = []*Stmt{{K: "dowhile", Do: &DoWh{Cond: c.Expr, Body: &Block{Stmts: []*Stmt{yes}}}}, no}
	case 4:
		body = []*Stmt{{K: "while", While: &While{Cond: c.Expr, Body: &Block{Stmts: []*Stmt{yes}}}}, no}
	case 5: // the condition is the last thing of the script: the false branch leaves the script
		body = []*Stmt{{K: "if", If: &If{Arms: []*Arm{{Cond: c.Expr, Body: &Block{Stmts: []*Stmt{yes}}}}}}}
	case 6:
		body = []*Stmt{{K: "dowhile", Do: &DoWh{Cond: c.Expr, Body: &Block{Stmts: []*Stmt{yes}}}}}
	case 7:
		body = []*Stmt{{K: "while", While: &While{Cond: c.Expr, Body: &Block{Stmts: []*Stmt{yes}}}}}
	case 11: // an empty loop body: a true E re-tests E (for ever, the state cannot change), a false E goes on
		body = []*Stmt{{K: "while", While: &While{Cond: c.Expr, Body: &Block{Stmts: []*Stmt{}}}}, no}
	case 8, 9, 10:
		// chains with several elif branches; E is the first / the second of two elifs, or an elif with an empty block
		pre := eLeaf(&Leaf{Kind: "flag", Operand: []string{"FLAG_PRE"}})
		q := eLeaf(&Leaf{Kind: "flag", Operand: []string{"FLAG_Q"}})
		cmdB := func(n string) *Block { return &Block{Stmts: []*Stmt{sCmd(&Cmd{Name: n})}} }
		var arms []*Arm
		switch c.Ctx {
		case 8:
			arms = []*Arm{{Cond: pre, Body: cmdB("pre")}, {Cond: c.Expr, Body: cmdB("yes")}, {Cond: q, Body: cmdB("q")}}
		case 9:
			arms = []*Arm{{Cond: pre, Body: cmdB("pre")}, {Cond: q, Body: cmdB("q")}, {Cond: c.Expr, Body: cmdB("yes")}}
		default:
			arms = []*Arm{{Cond: pre, Body: cmdB("pre")}, {Cond: c.Expr, Body: &Block{Stmts: []*Stmt{}}}, {Cond: q, Body: cmdB("q")}}
		}
		body = []*Stmt{{K: "if", If: &If{Arms: arms, Else: &Block{Stmts: []*Stmt{no}}}}, sCmd(&Cmd{Name: "after"})}
	default:
		panic("c02File: bad context")
	}
	f := &File{Tops: []*Top{{K: "script", Script: &Script{Name: "S", Body: &Block{Stmts: body}}}}}
	if c.Ctx >= 5 {
		f.Tops = append(f.Tops, &Top{K: "script", Script: &Script{Name: "T", Body: &Block{Stmts: []*Stmt{sCmd(&Cmd{Name: "other"})}}}})
	}
	return f
}

func c02Src(c *C02Case) string { return CanonMaybeDense(c02File(c)) }

// c02Expected is the outcome the statement of C02 demands for a context, given the value of E.
func c02Expected(ctx int, value bool) string {
	loop := Outcome{Finish: "CommandLimit"}
	for i := 0; i < cmdLimit; i++ {
		loop.Trace = append(loop.Trace, "yes")
	}
	var o Outcome
	switch ctx {
	case 0:
		o = Outcome{Trace: []string{"no"}, Finish: "Return"}
		if value {
			o.Trace[0] = "yes"
		}
	case 1:
		o = Outcome{Trace: []string{"no", "after"}, Finish: "Return"}
		if value {
			o.Trace[0] = "yes"
		}
	case 2:
		o = Outcome{Trace: []string{"no"}, Finish: "Return"}
		if value {
			o.Trace = []string{"yes", "no"}
		}
	case 3:
		o = Outcome{Trace: []string{"yes", "no"}, Finish: "Return"}
		if value {
			o = loop
		}
	case 4:
		o = Outcome{Trace: []string{"no"}, Finish: "Return"}
		if value {
			o = loop
		}
	case 5:
		o = Outcome{Finish: "Return"}
		if value {
			o.Trace = []string{"yes"}
		}
	case 6:
		o = Outcome{Trace: []string{"yes"}, Finish: "Return"}
		if value {
			o = loop
		}
	case 7:
		o = Outcome{Finish: "Return"}
		if value {
			o = loop
		}
	case 8: // FLAG_PRE unset; FLAG_Q set: E true -> yes, else q
		o = Outcome{Trace: []string{"q", "after"}, Finish: "Return"}
		if value {
			o.Trace[0] = "yes"
		}
	case 9: // FLAG_PRE unset, FLAG_Q unset: E true -> yes, else no
		o = Outcome{Trace: []string{"no", "after"}, Finish: "Return"}
		if value {
			o.Trace[0] = "yes"
		}
	case 11:
		o = Outcome{Trace: []string{"no"}, Finish: "Return"}
		if value {
			o = Outcome{Finish: "SilentLoop"}
		}
	default: // 10: the elif with E has an empty block; FLAG_Q set: E true -> nothing, else q
		o = Outcome{Trace: []string{"q", "after"}, Finish: "Return"}
		if value {
			o.Trace = []string{"after"}
		}
	}
	return o.String()
}

// leaves in source order
func exprLeaves(e *Expr) []*Leaf {
	var out []*Leaf
	walkLeaves(e, func(l *Leaf) { out = append(out, l) })
	return out
}

// truthEval evaluates the tree under a truth assignment to the leaves (in source order).
func truthEval(e *Expr, truth []bool, idx *int) bool {
	switch e.K {
	case "leaf":
		v := truth[*idx]
		*idx++
		return v
	case "paren":
		return truthEval(e.L, truth, idx)
	case "not":
		return !truthEval(e.L, truth, idx)
	case "and":
		l := truthEval(e.L, truth, idx)
		r := truthEval(e.R, truth, idx)
		return l && r
	case "or":
		l := truthEval(e.L, truth, idx)
		r := truthEval(e.R, truth, idx)
		return l || r
	}
	panic("truthEval")
}

// leafWorldValue picks the state value that makes the leaf evaluate to want.
// alt selects among several suitable values where there is a choice.
func leafWorldValue(l *Leaf, want bool, alt uint64) (key string, val int, extra map[string]int) {
	name := joinToks(l.Operand)
	switch l.Kind {
	case "flag", "defeated":
		key = "flag:" + name
		if l.Kind == "defeated" {
			key = "trainer:" + name
		}
		// truth of the leaf as a function of the flag
		var pos bool // leaf is true when the flag is set
		switch l.Op {
		case "":
			pos = true
		case "!":
			pos = false
		default:
			isTrue := l.Value[0] == "true" || l.Value[0] == "TRUE"
			pos = (l.Op == "==") == isTrue
		}
		if want == pos {
			return key, 1, nil
		}
		return key, 0, nil
	case "var", "auto":
		if l.Kind == "auto" {
			name = joinToks(l.Auto.Args[0].Toks)
		}
		key = "var:" + name
		var cands []int
		switch l.Op {
		case "", "!":
			for _, v := range []int{0, 1, 2, 7} {
				t := v != 0
				if l.Op == "!" {
					t = !t
				}
				if t == want {
					cands = append(cands, v)
				}
			}
		default:
			c := Val(joinToks(l.Value))
			if IsVarID(c) {
				// "compare" reads such a value as a var id unless value() is used: give that var a
				// content of its own, different from the raw number
				other := int(alt>>8)%7 + 1
				extra = map[string]int{"var:" + joinToks(l.Value): other}
				if !l.Wrap {
					c = other
				}
			}
			for _, v := range []int{c - 2, c - 1, c, c + 1, c + 2} {
				var t bool
				switch l.Op {
				case "==":
					t = v == c
				case "!=":
					t = v != c
				case "<":
					t = v < c
				case "<=":
					t = v <= c
				case ">":
					t = v > c
				case ">=":
					t = v >= c
				}
				if t == want {
					cands = append(cands, v)
				}
			}
		}
		return key, cands[int(alt%uint64(len(cands)))], extra
	}
	panic("leafWorldValue: " + l.Kind)
}

func mix(a, b, c uint64) uint64 {
	x := a*0x9E3779B97F4A7C15 ^ b*0xC2B2AE3D27D4EB4F ^ c*0x165667B19E3779F9
	x ^= x >> 31
	x *= 0xD6E8FEB86659FD93
	x ^= x >> 29
	return x
}

func exprShape(e *Expr) (leaves int, hasAnd, hasOr, negGroup, redundantAfterAnd bool) {
	var rec func(e *Expr, afterAnd bool)
	rec = func(e *Expr, afterAnd bool) {
		switch e.K {
		case "leaf":
			leaves++
		case "paren":
			if afterAnd {
				redundantAfterAnd = true
			}
			rec(e.L, false)
		case "not":
			negGroup = true
			rec(e.L, false)
		case "and":
			hasAnd = true
			rec(e.L, false)
			rec(e.R, true)
		case "or":
			hasOr = true
			rec(e.L, false)
			rec(e.R, false)
		}
	}
	rec(e, false)
	return
}

func checkC02(c *C02Case) *Violation {
	st := stat("C02")
	f := c02File(c)
	src := Canon(f)
	leaves := exprLeaves(c.Expr)
	n := len(leaves)
	var outs [2]string
	for i, opt := range []bool{false, true} {
		res := CompileMaybeLM(src, Opts{Optimize: opt, Auto: c02Auto})
		if !res.OK() {
			if res.Panic != nil || res.Budget {
				return viol("crash", "opt=%v %s\n--- source\n%s", opt, res.Describe(), src)
			}
			return viol("rejected", "a well-formed condition was rejected: %v\n--- source\n%s", res.Err, src)
		}
		outs[i] = res.Out
	}
	ref := NewRef(f, c02Auto)
	asms := [2]*Asm{ParseAsm(outs[0]), ParseAsm(outs[1])}
	total := 1 << uint(n)
	limit := total
	if limit > 256 {
		limit = 256
	}
	for k := 0; k < limit; k++ {
		a := uint64(k)
		if total > 256 {
			a = mix(c.Seed, uint64(k), 77) % uint64(total)
		}
		truth := make([]bool, n)
		w := &World{Seed: 1, Fixed: map[string]int{"flag:FLAG_PRE": 0, "flag:FLAG_Q": 1}}
		if c.Ctx == 9 {
			w.Fixed["flag:FLAG_Q"] = 0
		}
		for i, l := range leaves {
			truth[i] = a&(1<<uint(i)) != 0
			key, val, extra := leafWorldValue(l, truth[i], mix(c.Seed, a, uint64(i)))
			w.Fixed[key] = val
			for k, x := range extra {
				w.Fixed[k] = x
			}
		}
		idx := 0
		want := truthEval(c.Expr, truth, &idx)
		ro := ref.Run("S", w)
		// the AutoVar commands of the leaves are trace events too; the statement's expectation is about the rest
		filtered := Outcome{Finish: ro.Finish}
		for _, ev := range ro.Trace {
			if !strings.HasPrefix(ev, "specialvar ") {
				filtered.Trace = append(filtered.Trace, ev)
			}
		}
		if c.Ctx == 11 && want {
			// for ever: silently, or - when leaves run AutoVar commands - until the horizon
			if len(filtered.Trace) != 0 || (filtered.Finish != "SilentLoop" && filtered.Finish != "CommandLimit") {
				panic(fmt.Sprintf("harness self-check: reference interpreter disagrees with truth table\n%s\nassignment %v want %v ref %s", src, truth, want, ro))
			}
		} else if filtered.Finish == "CommandLimit" {
			// loop contexts hit the horizon earlier when leaves contribute events: compare the prefix only
			exp := c02Expected(c.Ctx, want)
			if !strings.HasPrefix(exp, strings.Join(filtered.Trace, " ; ")) || !strings.HasSuffix(exp, "CommandLimit") {
				panic(fmt.Sprintf("harness self-check: reference interpreter disagrees with truth table\n%s\nassignment %v want %v ref %s", src, truth, want, ro))
			}
		} else if filtered.String() != c02Expected(c.Ctx, want) {
			panic(fmt.Sprintf("harness self-check: reference interpreter disagrees with truth table\n%s\nassignment %v want %v ref %s", src, truth, want, ro))
		}
		for i := range asms {
			got := asms[i].Run("S", w)
			if got.String() != ro.String() {
				return viol("condition-value", "opt=%v leaf truths (source order) %v: the written expression is %v\nwant %s\ngot  %s\n--- source\n%s--- output\n%s", i == 1, truth, want, ro, got, src, outs[i])
			}
		}
	}
	nl, hasAnd, hasOr, neg, red := exprShape(c.Expr)
	nontrivial := (nl >= 3 && hasAnd && hasOr) || neg || red
	st.Eval(src, nontrivial, func() any { return clip(src, 800) }, fmt.Sprintf("leaves=%d", nl))
	st.Add("assignments", int64(limit*2))
	return nil
}

// ---- generator: every leaf reads its own operand ----

func c02Leaf(t *rapid.T, i int) *Leaf {
	kind := rapid.SampledFrom([]string{"flag", "flag", "var", "var", "defeated", "auto"}).Draw(t, "kind")
	l := &Leaf{Kind: kind}
	if kind == "auto" {
		l.Auto = &Cmd{Name: "specialvar", Args: []*Arg{{Toks: []string{fmt.Sprintf("VAR_%d", i)}}, {Toks: []string{fmt.Sprintf("Func%d", i)}}}}
		kind = "var"
	}
	switch kind {
	case "flag":
		l.Operand = []string{fmt.Sprintf("FLAG_%d", i)}
	case "defeated":
		l.Operand = []string{fmt.Sprintf("TRAINER_%d", i)}
	default:
		l.Operand = []string{fmt.Sprintf("VAR_%d", i)}
	}
	if rapid.IntRange(0, 7).Draw(t, "multitok") == 0 {
		// operands may be any token sequence: FLAG_BASE + 3
		l.Operand = append(l.Operand, "+", fmt.Sprint(i))
	}
	if kind == "var" {
		switch rapid.IntRange(0, 5).Draw(t, "form") {
		case 0:
		case 1:
			l.Op = "!"
		default:
			l.Op = rapid.SampledFrom(varOps).Draw(t, "op")
			v := rapid.IntRange(0, 9).Draw(t, "val")
			switch rapid.IntRange(0, 7).Draw(t, "valform") {
			case 6:
				l.Value = []string{fmt.Sprintf("0x40%02X", 16*i+v)} // var-id range, one distinct id per leaf
			case 7:
				l.Value = []string{fmt.Sprint(0x8000 + i)}
			case 0:
				l.Value = []string{fmt.Sprintf("0x%X", v)}
			case 1:
				l.Value = []string{fmt.Sprintf("SYM_%d", v)}
			case 2:
				l.Value = []string{fmt.Sprintf("-%d", v+1)}
			case 3:
				l.Value = []string{rapid.SampledFrom([]string{"TRUE", "FALSE", "true", "false"}).Draw(t, "boolval")} // the README's checkitem(..) == TRUE
			default:
				l.Value = []string{fmt.Sprint(v)}
			}
			if rapid.IntRange(0, 7).Draw(t, "multival") == 0 {
				l.Value = []string{fmt.Sprintf("BASE_%d", v), "+", fmt.Sprint(i), "*", "2"}
			}
			l.Wrap = rapid.IntRange(0, 3).Draw(t, "wrap") == 0
		}
		return l
	}
	switch rapid.IntRange(0, 3).Draw(t, "form") {
	case 0:
	case 1:
		l.Op = "!"
	default:
		l.Op = rapid.SampledFrom([]string{"==", "!="}).Draw(t, "op")
		l.Value = []string{rapid.SampledFrom(flagCmpVals).Draw(t, "bval")}
	}
	return l
}

func c02Expr(t *rapid.T, budget int, next *int) *Expr {
	if budget <= 1 {
		e := eLeaf(c02Leaf(t, *next))
		*next++
		if rapid.IntRange(0, 5).Draw(t, "leafparen") == 0 {
			e = ePar(e)
			if rapid.IntRange(0, 3).Draw(t, "leafparen2") == 0 {
				e = ePar(e)
			}
		}
		return e
	}
	var e *Expr
	switch rapid.IntRange(0, 8).Draw(t, "ek") {
	case 0:
		e = eNot(c02Expr(t, budget, next))
	case 1, 2, 3, 4:
		lb := rapid.IntRange(1, budget-1).Draw(t, "split")
		l := c02Expr(t, lb, next)
		e = eAnd(l, c02Expr(t, budget-lb, next))
	default:
		lb := rapid.IntRange(1, budget-1).Draw(t, "split")
		l := c02Expr(t, lb, next)
		e = eOr(l, c02Expr(t, budget-lb, next))
	}
	if rapid.IntRange(0, 4).Draw(t, "redundant") == 0 {
		e = ePar(e)
	}
	return e
}

func genC02(t *rapid.T) *C02Case {
	n := rapid.IntRange(1, pick(8, 12)).Draw(t, "nleaves")
	next := 0
	return &C02Case{
		Ctx:  rapid.IntRange(0, 11).Draw(t, "ctx"),
		Expr: c02Expr(t, n, &next),
		Seed: rapid.Uint64().Draw(t, "seed"),
	}
}

func init() {
	register("C02", "TestC02_Truth", checkC02, c02Src)
}

const c02Rule = "a condition E (random tree of 1-8 leaves, thorough 12, over && || ! and redundant parentheses; every leaf form: AutoVar command with a result var of its own, flag/defeated bare, negated, ==/!= TRUE/FALSE; var bare, negated, six operators, value(); literal, hex, negative, symbolic, var-id-range and multi-token values; multi-token operands) placed in if/else, elif, while, do-while, also as the last statement of a script that is followed by another script, and as the first / second of two elif branches or an elif with an empty block; every leaf reads its own flag/var/trainer; for EVERY truth assignment to the leaves (2^n, 256 sampled above n=8) a scripted world realises it (vars below/at/above the comparison value) and the assembly run must equal the reference run, optimize off and on; plus exhaustive enumeration of all trees up to 3 leaves (thorough 4). non-trivial = >=3 leaves mixing && and ||, or a negated group, or a redundant parenthesis right after &&; distinct by source text"

func TestC02_Regress(t *testing.T) { runRegress(t, "C02") }

func TestC02_Truth(t *testing.T) {
	st := stat("C02")
	st.SetRule(c02Rule)
	st.Assume("condition tests have no side effects", "comparison values denote fixed numbers (symbols are hashed injectively)")
	runRapid(t, "C02", "TestC02_Truth", genC02, checkC02, c02Src)
}

// ---- exhaustive small-scope enumeration ----

type leafForm struct {
	kind, op string
	val      []string
	wrap     bool
}

func enumExprs(n int, forms []leafForm, leafParen bool, emit func(*Expr)) {
	// build all trees with n leaves; wrappers none/not/paren on every internal node
	var build func(n int, first int) []*Expr
	memo := map[[2]int][]*Expr{}
	build = func(n, first int) []*Expr {
		if r, ok := memo[[2]int{n, first}]; ok {
			return r
		}
		var out []*Expr
		if n == 1 {
			for _, fm := range forms {
				l := &Leaf{Kind: fm.kind, Op: fm.op, Value: fm.val, Wrap: fm.wrap}
				switch fm.kind {
				case "flag":
					l.Operand = []string{fmt.Sprintf("FLAG_%d", first)}
				case "defeated":
					l.Operand = []string{fmt.Sprintf("TRAINER_%d", first)}
				default:
					l.Operand = []string{fmt.Sprintf("VAR_%d", first)}
				}
				out = append(out, eLeaf(l))
				if leafParen {
					out = append(out, ePar(eLeaf(l)))
				}
			}
		} else {
			for a := 1; a < n; a++ {
				for _, l := range build(a, first) {
					for _, r := range build(n-a, first+a) {
						for _, op := range []string{"and", "or"} {
							e := &Expr{K: op, L: l, R: r}
							out = append(out, e, eNot(e), ePar(e))
						}
					}
				}
			}
		}
		memo[[2]int{n, first}] = out
		return out
	}
	for _, e := range build(n, 0) {
		emit(e)
	}
}

func TestC02_Enum(t *testing.T) {
	st := stat("C02")
	st.SetRule(c02Rule)
	activateKnown("C02")
	defer flushFail("C02", "TestC02_Truth")
	full := []leafForm{{"flag", "", nil, false}, {"flag", "!", nil, false}, {"var", "<", []string{"2"}, false}, {"defeated", "==", []string{"false"}, false}, {"var", ">=", []string{"0x4001"}, true}}
	small := []leafForm{{"flag", "", nil, false}, {"var", "!", nil, false}}
	type scope struct {
		n     int
		forms []leafForm
		paren bool
	}
	scopes := []scope{{1, full, true}, {2, full, true}, {3, full, false}, {3, small, true}}
	if thorough() {
		scopes = append(scopes, scope{3, full, true}, scope{4, small, true})
	}
	idx := 0
	count := 0
	for _, sc := range scopes {
		enumExprs(sc.n, sc.forms, sc.paren, func(e *Expr) {
			idx++
			if idx%shardCount() != shardIdx() || t.Failed() {
				return
			}
			count++
			c := &C02Case{Ctx: idx % 12, Expr: e, Seed: uint64(idx)}
			// the enumerated trees share sub-trees; checkC02 does not mutate them
			if !runCase(t, "C02", "TestC02_Truth", c, checkC02, c02Src) {
				t.Fail()
			}
		})
		if t.Failed() {
			break
		}
	}
	st.Add("enumerated_expressions", int64(count))
	st.Done(fmt.Sprintf("all expression trees with <=%d leaves (forms, negations, parentheses as listed in the rule)", pick(3, 4)), !t.Failed())
}
