module mutate

go 1.23
