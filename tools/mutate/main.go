// mutate: a small source-level mutation generator for Go files (stdlib only).
//
//	mutate list <file.go>            prints one JSON object per mutant: {"id","file","line","start","end","repl","op","orig"}
//	mutate apply <file.go> <id>      prints the mutated file
//
// A mutant is one textual replacement of the byte range [start,end) of the file.
// Operators: negate an if/for condition, swap a relational / logical / additive
// operator, +-1 on an integer literal, flip a boolean literal, delete a simple
// statement (assignment, call, inc/dec, break, continue), drop an else branch.
// Code that only builds error values (fmt.Errorf, errors.New, New*ParseError
// arguments) and string literals are left alone: the properties are about
// output and acceptance, not message wording.
package main

import (
	"encoding/json"
	"fmt"
	"go/ast"
	"go/parser"
	"go/token"
	"os"
	"strconv"
	"strings"
)

type Mutant struct {
	ID    int    `json:"id"`
	File  string `json:"file"`
	Line  int    `json:"line"`
	Start int    `json:"start"`
	End   int    `json:"end"`
	Repl  string `json:"repl"`
	Op    string `json:"op"`
	Orig  string `json:"orig"`
	Func  string `json:"func"`
}

func main() {
	if len(os.Args) < 3 {
		fmt.Fprintln(os.Stderr, "usage: mutate list|apply <file> [id]")
		os.Exit(2)
	}
	file := os.Args[2]
	src, err := os.ReadFile(file)
	if err != nil {
		panic(err)
	}
	set := 1
	if strings.HasSuffix(os.Args[1], "2") {
		set = 2
	}
	ms := mutants(file, src, set)
	switch strings.TrimSuffix(os.Args[1], "2") {
	case "list":
		enc := json.NewEncoder(os.Stdout)
		for _, m := range ms {
			enc.Encode(m)
		}
	case "apply":
		id, _ := strconv.Atoi(os.Args[3])
		m := ms[id]
		os.Stdout.Write(src[:m.Start])
		os.Stdout.WriteString(m.Repl)
		os.Stdout.Write(src[m.End:])
	}
}

var swaps = map[token.Token][]string{
	token.EQL: {"!="}, token.NEQ: {"=="},
	token.LSS: {"<=", ">="}, token.LEQ: {"<", ">"}, token.GTR: {">=", "<="}, token.GEQ: {">", "<"},
	token.LAND: {"||"}, token.LOR: {"&&"},
	token.ADD: {"-"}, token.SUB: {"+"},
}

func mutants(file string, src []byte, set int) []Mutant {
	fset := token.NewFileSet()
	f, err := parser.ParseFile(fset, file, src, 0)
	if err != nil {
		panic(err)
	}
	var out []Mutant
	off := func(p token.Pos) int { return fset.Position(p).Offset }
	curFunc := ""
	add := func(start, end token.Pos, repl, op string) {
		s, e := off(start), off(end)
		out = append(out, Mutant{ID: len(out), File: file, Line: fset.Position(start).Line, Start: s, End: e, Repl: repl, Op: op, Orig: clip(string(src[s:e])), Func: curFunc})
	}
	// error-building calls are skipped entirely
	isErrCall := func(c *ast.CallExpr) bool {
		name := ""
		switch fn := c.Fun.(type) {
		case *ast.SelectorExpr:
			name = fn.Sel.Name
		case *ast.Ident:
			name = fn.Name
		}
		return strings.Contains(name, "Errorf") || name == "New" && isPkg(c.Fun, "errors") || strings.HasSuffix(name, "ParseError") || name == "Sprintf" && false
	}
	var visit func(n ast.Node) bool
	visit = func(n ast.Node) bool {
		switch x := n.(type) {
		case *ast.FuncDecl:
			curFunc = x.Name.Name
		case *ast.CallExpr:
			if isErrCall(x) {
				return false
			}
		case *ast.IfStmt:
			add(x.Cond.Pos(), x.Cond.End(), "!("+string(src[off(x.Cond.Pos()):off(x.Cond.End())])+")", "negate-if")
			if x.Else != nil {
				if _, ok := x.Else.(*ast.BlockStmt); ok {
					add(x.Body.End(), x.Else.End(), "", "drop-else")
				}
			}
		case *ast.ForStmt:
			if x.Cond != nil {
				add(x.Cond.Pos(), x.Cond.End(), "!("+string(src[off(x.Cond.Pos()):off(x.Cond.End())])+")", "negate-for")
			}
		case *ast.BinaryExpr:
			for _, r := range swaps[x.Op] {
				// string concatenation: leave alone
				if x.Op == token.ADD && (isString(x.X) || isString(x.Y)) {
					continue
				}
				add(x.OpPos, x.OpPos+token.Pos(len(x.Op.String())), r, "op "+x.Op.String()+" -> "+r)
			}
		case *ast.BasicLit:
			if x.Kind == token.INT {
				if v, err := strconv.ParseInt(x.Value, 0, 64); err == nil {
					add(x.Pos(), x.End(), strconv.FormatInt(v+1, 10), "int+1")
					if v > 0 {
						add(x.Pos(), x.End(), strconv.FormatInt(v-1, 10), "int-1")
					}
				}
			}
		case *ast.Ident:
			if x.Name == "true" {
				add(x.Pos(), x.End(), "false", "true->false")
			} else if x.Name == "false" {
				add(x.Pos(), x.End(), "true", "false->true")
			}
		case *ast.BlockStmt:
			for _, s := range x.List {
				deletable(s, add)
			}
		case *ast.CaseClause:
			for _, s := range x.Body {
				deletable(s, add)
			}
		}
		return true
	}
	if set == 2 {
		visit = visit2(src, off, add, func(n string) { curFunc = n }, isErrCall)
	}
	ast.Inspect(f, visit)
	for i := range out {
		out[i].ID = i
	}
	return out
}

func deletable(s ast.Stmt, add func(start, end token.Pos, repl, op string)) {
	switch st := s.(type) {
	case *ast.AssignStmt:
		if st.Tok == token.DEFINE {
			return // would not compile (unused / undefined)
		}
		add(st.Pos(), st.End(), "", "delete-assign")
	case *ast.ExprStmt:
		add(st.Pos(), st.End(), "", "delete-call")
	case *ast.IncDecStmt:
		add(st.Pos(), st.End(), "", "delete-incdec")
	case *ast.BranchStmt:
		if st.Tok == token.BREAK || st.Tok == token.CONTINUE {
			add(st.Pos(), st.End(), "", "delete-"+st.Tok.String())
		}
	}
}

func isPkg(e ast.Expr, pkg string) bool {
	if s, ok := e.(*ast.SelectorExpr); ok {
		if id, ok := s.X.(*ast.Ident); ok {
			return id.Name == pkg
		}
	}
	return false
}

func isString(e ast.Expr) bool {
	switch x := e.(type) {
	case *ast.BasicLit:
		return x.Kind == token.STRING || x.Kind == token.CHAR
	case *ast.BinaryExpr:
		return isString(x.X) || isString(x.Y)
	case *ast.CallExpr:
		if s, ok := x.Fun.(*ast.SelectorExpr); ok {
			return s.Sel.Name == "Sprintf" || s.Sel.Name == "String" || s.Sel.Name == "Join" || s.Sel.Name == "Repeat"
		}
	}
	return false
}

func clip(s string) string {
	s = strings.Join(strings.Fields(s), " ")
	if len(s) > 90 {
		s = s[:90] + "…"
	}
	return s
}

// ---- second operator set: dropped conjuncts, removed '!', swapped arguments, moved slice bounds and
// indices, break <-> continue, compound assignments, look-alike strings functions ----

var lookAlike = map[string]string{"HasPrefix": "HasSuffix", "HasSuffix": "HasPrefix", "TrimLeft": "TrimRight", "TrimRight": "TrimLeft", "Index": "LastIndex", "LastIndex": "Index",
	"TrimPrefix": "TrimSuffix", "TrimSuffix": "TrimPrefix", "ToUpper": "ToLower", "ToLower": "ToUpper", "IsDigit": "IsLetter", "IsLetter": "IsDigit", "Itoa": "Quote"}

func visit2(src []byte, off func(token.Pos) int, add func(start, end token.Pos, repl, op string), setFunc func(string), isErrCall func(*ast.CallExpr) bool) func(ast.Node) bool {
	text := func(n ast.Node) string { return string(src[off(n.Pos()):off(n.End())]) }
	ifConds := map[ast.Expr]bool{}
	return func(n ast.Node) bool {
		switch x := n.(type) {
		case *ast.FuncDecl:
			setFunc(x.Name.Name)
		case *ast.IfStmt:
			ifConds[x.Cond] = true
		case *ast.CallExpr:
			if isErrCall(x) {
				return false
			}
			for i := 0; i+1 < len(x.Args); i++ {
				a, b := text(x.Args[i]), text(x.Args[i+1])
				if a != b {
					add(x.Args[i].Pos(), x.Args[i+1].End(), b+", "+a, "swap-args")
				}
			}
			if s, ok := x.Fun.(*ast.SelectorExpr); ok {
				if r, ok := lookAlike[s.Sel.Name]; ok {
					add(s.Sel.Pos(), s.Sel.End(), r, "call "+s.Sel.Name+" -> "+r)
				}
				if s.Sel.Name == "TrimSpace" && len(x.Args) == 1 {
					add(x.Pos(), x.End(), text(x.Args[0]), "drop TrimSpace")
				}
			}
		case *ast.UnaryExpr:
			if x.Op == token.NOT && !ifConds[x] {
				add(x.Pos(), x.End(), "("+text(x.X)+")", "remove-not")
			}
		case *ast.BinaryExpr:
			if x.Op == token.LAND || x.Op == token.LOR {
				add(x.Pos(), x.End(), "("+text(x.X)+")", "keep-left of "+x.Op.String())
				add(x.Pos(), x.End(), "("+text(x.Y)+")", "keep-right of "+x.Op.String())
			}
		case *ast.SliceExpr:
			if x.Low != nil {
				add(x.Low.Pos(), x.Low.End(), "("+text(x.Low)+")+1", "slice-low+1")
			} else {
				add(x.Lbrack+1, x.Lbrack+1, "1", "slice-low 0->1")
			}
			if x.High != nil {
				add(x.High.Pos(), x.High.End(), "("+text(x.High)+")-1", "slice-high-1")
				add(x.High.Pos(), x.High.End(), "("+text(x.High)+")+1", "slice-high+1")
			} else {
				add(x.Rbrack, x.Rbrack, "len("+text(x.X)+")-1", "slice-high len-1")
			}
		case *ast.IndexExpr:
			ok := false
			switch ix := x.Index.(type) {
			case *ast.BasicLit:
				ok = ix.Kind == token.INT
			case *ast.BinaryExpr:
				ok = !isString(ix)
			case *ast.Ident:
				switch ix.Name {
				case "i", "j", "k", "idx", "pos", "index", "n", "statementIndex":
					ok = true
				}
			}
			if ok {
				add(x.Index.Pos(), x.Index.End(), "("+text(x.Index)+")+1", "index+1")
				add(x.Index.Pos(), x.Index.End(), "("+text(x.Index)+")-1", "index-1")
			}
		case *ast.BranchStmt:
			if x.Label == nil && x.Tok == token.BREAK {
				add(x.Pos(), x.End(), "continue", "break->continue")
			} else if x.Label == nil && x.Tok == token.CONTINUE {
				add(x.Pos(), x.End(), "break", "continue->break")
			}
		case *ast.AssignStmt:
			switch x.Tok {
			case token.ADD_ASSIGN:
				if len(x.Rhs) == 1 && !isString(x.Rhs[0]) {
					add(x.TokPos, x.TokPos+2, "-=", "+= -> -=")
					add(x.TokPos, x.TokPos+2, "=", "+= -> =")
				}
			case token.SUB_ASSIGN:
				add(x.TokPos, x.TokPos+2, "+=", "-= -> +=")
			}
		case *ast.ReturnStmt:
			// return a, b with two results of the same spelling class: leave alone (types unknown)
		}
		return true
	}
}
