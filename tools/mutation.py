#!/usr/bin/env python3
"""Mutation analysis of the checks (sensitivity measurement, not a registered check).

  tools/mutation.py suite  [-j N]                 every mutant of tools/mutate over the anchored source files:
                                                   does it compile, does the pinned suite still pass?  -> mutation/suite.jsonl
  tools/mutation.py checks [-j N] [-n SAMPLE]     every (sampled) mutant that compiles and passes the pinned suite is given
                                                   to the registered quick checks until one reports it   -> mutation/checks.jsonl
  tools/mutation.py report                        -> mutation/REPORT.md
  (-s2 selects the second operator set; its files are suite2.jsonl, checks2.jsonl, REPORT2.md)

Works on scratch copies of the repository and of /verif under /tmp/mutwork (removed at the end); /repo itself is
never touched. The repository copy is taken from $VP_RUN_REPO (vp run --with-repo) or /repo.
"""
import json, os, random, shutil, subprocess, sys, time, threading, queue

ROOT = os.path.dirname(os.path.dirname(os.path.abspath(__file__)))
SRC_REPO = os.environ.get("VP_RUN_REPO") or "/repo"
WORK = "/tmp/mutwork.%d" % os.getpid()
OUT = os.path.join(ROOT, "mutation")
FILES = ["emitter/emitter.go", "emitter/chunk.go", "emitter/branch.go", "parser/parser.go", "parser/formattext.go", "lexer/lexer.go", "ast/ast.go"]
ENV = dict(os.environ, GOFLAGS="-mod=mod", GOPROXY="off", GOSUMDB="off", GOTOOLCHAIN="local")
ALL = ["C%02d" % i for i in range(1, 21)]
MEM_LIMIT = 8 << 30
SET = 2 if "-s2" in sys.argv else 1   # operator set (see tools/mutate/main.go)
SUF = "2" if SET == 2 else ""
ORDER = {
    "emitter/emitter.go": ["C04", "C01", "C05", "C06", "C08", "C09", "C14", "C16", "C03", "C15", "C10", "C11", "C17"],
    "emitter/chunk.go": ["C04", "C01", "C05", "C10", "C16", "C20"],
    "emitter/branch.go": ["C01", "C02", "C03", "C11", "C05", "C04"],
    "parser/parser.go": ["C20", "C10", "C13", "C12", "C06", "C02", "C03", "C14", "C08", "C09", "C11", "C07", "C15", "C18", "C16"],
    "parser/formattext.go": ["C07", "C17", "C06", "C09"],
    "lexer/lexer.go": ["C19", "C18", "C16", "C09", "C10"],
    "ast/ast.go": ["C01", "C02", "C03", "C04"],
}


def limit_mem():
    # a mutant may allocate without bound: cap the address space of everything started for it
    import resource
    resource.setrlimit(resource.RLIMIT_AS, (MEM_LIMIT, MEM_LIMIT))


def sh(cmd, cwd, timeout, env=ENV):
    import signal
    p = subprocess.Popen(cmd, cwd=cwd, env=env, stdout=subprocess.PIPE, stderr=subprocess.STDOUT, text=True, shell=isinstance(cmd, str), start_new_session=True, preexec_fn=limit_mem)
    try:
        out, _ = p.communicate(timeout=timeout)
        return p.returncode, out
    except subprocess.TimeoutExpired:
        try:
            os.killpg(p.pid, signal.SIGKILL)
        except ProcessLookupError:
            pass
        out, _ = p.communicate()
        return 124, out or ""


def build_tool():
    os.makedirs(WORK, exist_ok=True)
    rc, out = sh(["go", "build", "-o", os.path.join(WORK, "mutate"), "."], os.path.join(ROOT, "tools", "mutate"), 300)
    if rc != 0:
        sys.exit("cannot build tools/mutate:\n" + out)


def list_mutants():
    ms = []
    for f in FILES:
        rc, out = sh([os.path.join(WORK, "mutate"), "list" + ("2" if SET == 2 else ""), f], SRC_REPO, 60)
        for line in out.splitlines():
            m = json.loads(line)
            m["key"] = "%s#%s%d" % (f, "b" if SET == 2 else "", m["id"])
            ms.append(m)
    return ms


def worker_repo(k):
    d = os.path.join(WORK, "w%d" % k, "repo")
    if not os.path.isdir(d):
        os.makedirs(os.path.dirname(d), exist_ok=True)
        subprocess.run(["rsync", "-a", "--exclude", ".git", SRC_REPO + "/", d + "/"], check=True)
    return d


def worker_verif(k):
    d = os.path.join(WORK, "w%d" % k, "verif")
    if not os.path.isdir(d):
        subprocess.run(["rsync", "-a", "--exclude", ".git", "--exclude", "seeded", "--exclude", "mutation", "--exclude", "replays", "--exclude", ".bin", ROOT + "/", d + "/"], check=True)
    return d


def apply(m, repo):
    src = open(os.path.join(SRC_REPO, m["file"]), "rb").read()
    open(os.path.join(repo, m["file"]), "wb").write(src[:m["start"]] + m["repl"].encode() + src[m["end"]:])


def restore(m, repo):
    shutil.copyfile(os.path.join(SRC_REPO, m["file"]), os.path.join(repo, m["file"]))


def run_pool(items, nworkers, fn, outpath):
    q = queue.Queue()
    for it in items:
        q.put(it)
    lock = threading.Lock()
    done = [0]
    t0 = time.time()

    def loop(k):
        while True:
            try:
                it = q.get_nowait()
            except queue.Empty:
                return
            try:
                res = fn(k, it)
            except Exception as e:  # infrastructure trouble is recorded, never counted as a kill
                res = dict(it, status="infra", detail=repr(e))
            with lock:
                with open(outpath, "a") as f:
                    f.write(json.dumps(res) + "\n")
                done[0] += 1
                if done[0] % 20 == 0:
                    print("%d/%d done, %.0fs" % (done[0], len(items), time.time() - t0), flush=True)
    ts = [threading.Thread(target=loop, args=(k,)) for k in range(nworkers)]
    [t.start() for t in ts]
    [t.join() for t in ts]


def seen(path):
    s = {}
    if os.path.exists(path):
        for line in open(path):
            r = json.loads(line)
            s[r["key"]] = r
    return s


def phase_suite(nworkers):
    build_tool()
    os.makedirs(OUT, exist_ok=True)
    outpath = os.path.join(OUT, "suite%s.jsonl" % SUF)
    have = seen(outpath)
    ms = [m for m in list_mutants() if m["key"] not in have]
    print("%d mutants to run through the pinned suite" % len(ms), flush=True)

    def one(k, m):
        repo = worker_repo(k)
        apply(m, repo)
        try:
            rc, out = sh(["go", "build", "./..."], repo, 300)
            if rc != 0:
                return dict(m, status="nocompile")
            t0 = time.time()
            rc, out = sh(["go", "test", "-vet=off", "-count=1", "-timeout", "60s", "./..."], repo, 300)
            return dict(m, status="suite-survived" if rc == 0 else "suite-killed", rc=rc, secs=round(time.time() - t0, 1))
        finally:
            restore(m, repo)
    run_pool(ms, nworkers, one, outpath)


def phase_checks(nworkers, sample):
    os.makedirs(OUT, exist_ok=True)
    surv = [r for r in seen(os.path.join(OUT, "suite%s.jsonl" % SUF)).values() if r["status"] == "suite-survived"]
    surv.sort(key=lambda r: r["key"])
    if sample and len(surv) > sample:
        random.Random(20261004).shuffle(surv)
        surv = surv[:sample]
    outpath = os.path.join(OUT, "checks%s.jsonl" % SUF)
    have = seen(outpath)
    surv = [r for r in surv if r["key"] not in have]
    print("%d suite-surviving mutants to give to the quick checks" % len(surv), flush=True)

    def one(k, m):
        repo, verif = worker_repo(k), worker_verif(k)
        apply(m, repo)
        tried, infra = [], []
        try:
            order = ORDER[m["file"]] + [i for i in ALL if i not in ORDER[m["file"]]]
            for cid in order:
                env = dict(ENV, VERIF_REPO=repo, VERIF_SEED="1", VERIF_JOB_TIMEOUT="240")
                rc, out = sh([os.path.join(verif, "run.sh"), cid, "quick"], verif, 900, env)
                tried.append(cid)
                shutil.rmtree(os.path.join(verif, "replays"), ignore_errors=True)
                if rc == 1 and "VIOLATION property=" in out:
                    clause = ""
                    for line in out.splitlines():
                        if "clause:" in line:
                            clause = line.split("clause:")[1].strip()
                            break
                    return dict(m, status="killed", by=cid, clause=clause, tried=tried, infra=infra)
                if rc != 0:
                    infra.append(cid)
            return dict(m, status="survived", tried=tried, infra=infra)
        finally:
            restore(m, repo)
    run_pool(surv, nworkers, one, outpath)


def phase_report():
    suite = seen(os.path.join(OUT, "suite%s.jsonl" % SUF))
    checks = seen(os.path.join(OUT, "checks%s.jsonl" % SUF))
    from collections import Counter
    c1 = Counter(r["status"] for r in suite.values())
    c2 = Counter(r["status"] for r in checks.values())
    by = Counter(r.get("by") for r in checks.values() if r["status"] == "killed")
    with open(os.path.join(OUT, "REPORT%s.md" % SUF), "w") as f:
        f.write("# Mutation analysis\n\n%d mutants: %s\n\nquick checks on %d suite-surviving mutants: %s\n\nkilled by (first check that reported it): %s\n\n" % (
            len(suite), dict(c1), len(checks), dict(c2), dict(sorted(by.items()))))
        f.write("## Mutants no quick check reported\n\n| mutant | line | function | operator | original | not-conclusive checks |\n|---|---|---|---|---|---|\n")
        for r in sorted(checks.values(), key=lambda r: (r["file"], r["line"])):
            if r["status"] == "survived":
                f.write("| %s | %d | %s | %s | `%s` | %s |\n" % (r["key"], r["line"], r["func"], r["op"], r["orig"].replace("|", "\\|"), ",".join(r.get("infra", []))))
    print(open(os.path.join(OUT, "REPORT%s.md" % SUF)).read()[:3000])


if __name__ == "__main__":
    a = sys.argv[1:]
    nw = int(a[a.index("-j") + 1]) if "-j" in a else 4
    n = int(a[a.index("-n") + 1]) if "-n" in a else 0
    try:
        if a[0] == "suite":
            phase_suite(nw)
        elif a[0] == "checks":
            phase_checks(nw, n)
        elif a[0] == "report":
            phase_report()
    finally:
        if a[0] != "report":
            shutil.rmtree(WORK, ignore_errors=True)
