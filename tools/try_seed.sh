#!/bin/bash
# tools/try_seed.sh <dir with patch.diff demo_test.go> <demo pkg dir (e.g. emitter)> <ID> [<ID>...]
# 1. confirms the seeded change in a scratch worktree (suite passes, demo fails with / passes without)
# 2. applies it to /repo, runs the quick checks of the given properties, reverts /repo
export GOFLAGS=-mod=mod GOPROXY=off GOSUMDB=off GOTOOLCHAIN=local
D=$(realpath "$1"); PKG=$2; shift 2
W=/tmp/seedverify.$$
git -C /repo worktree add -q --detach $W HEAD || exit 2
trap 'git -C /repo worktree remove --force '$W' >/dev/null 2>&1; git -C /repo checkout -q -- . ' EXIT
cd $W
cp $D/demo_test.go $W/$PKG/zz_seed_demo_test.go
if go test -vet=off -count=1 ./$PKG/ -run 'Demo|Seed|C[0-9][0-9]' >/tmp/seed.clean.log 2>&1; then echo "CONFIRM demo passes on clean tree: yes"; else echo "CONFIRM demo passes on clean tree: NO"; tail -5 /tmp/seed.clean.log; fi
rm $W/$PKG/zz_seed_demo_test.go
git apply $D/patch.diff || { echo "patch does not apply"; exit 2; }
if go build ./... && go test -vet=off -count=1 ./emitter/ ./lexer/ ./parser/ >/tmp/seed.suite.log 2>&1; then echo "CONFIRM suite passes with patch: yes"; else echo "CONFIRM suite passes with patch: NO"; tail -5 /tmp/seed.suite.log; fi
cp $D/demo_test.go $W/$PKG/zz_seed_demo_test.go
if go test -vet=off -count=1 ./$PKG/ >/tmp/seed.demo.log 2>&1; then echo "CONFIRM demo fails with patch: NO (passes)"; else echo "CONFIRM demo fails with patch: yes"; fi
cd /verif
rm -rf /tmp/evidence.keep; cp -r /verif/evidence /tmp/evidence.keep   # keep the evidence of the clean tree
git -C /repo apply $D/patch.diff || { echo "patch does not apply to /repo"; exit 2; }
for id in "$@"; do
  ./run.sh $id quick > /tmp/seed.run.$id.log 2>&1; rc=$?
  echo "CHECK $id quick exit=$rc $(grep -c '^VIOLATION' /tmp/seed.run.$id.log) violation lines; $(grep -m1 'clause:' /tmp/seed.run.$id.log)"
done
git -C /repo checkout -q -- .
rm -rf /verif/evidence; mv /tmp/evidence.keep /verif/evidence
rm -rf /verif/replays
