#!/bin/bash
# runs every quick check on the (clean) tree, then validates manifest + evidence; use before committing
cd /verif
[ -z "$(git -C /repo status --porcelain)" ] || { echo "/repo is not clean"; exit 2; }
fail=0
for id in C01 C02 C03 C04 C05 C06 C07 C08 C09 C10 C11 C12 C13 C14 C15 C16 C17 C18 C19 C20; do
  out=$(VERIF_SEED=${VERIF_SEED:-1} ./run.sh $id quick 2>&1); rc=$?
  echo "$id exit=$rc $(echo "$out" | tail -1)"
  if [ $rc -ne 0 ]; then fail=1; echo "$out" | grep -v 'rapid\] draw' | grep -v KNOWN-FINDING | head -40; fi
done
python3-vt validate.py || fail=1
rm -rf /verif/replays
exit $fail
