#!/bin/bash
# tools/apply_seed.sh <seeded/<name>> <ID> [<ID>...]: apply a kept seeded change to /repo, run the quick checks, revert.
cd /verif
git -C /repo apply $(realpath $1)/patch.diff || { echo "patch does not apply to /repo"; exit 2; }
D=$1; shift
# the evidence files are rewritten by every run: keep the ones of the clean tree
rm -rf /tmp/evidence.keep; cp -r /verif/evidence /tmp/evidence.keep
for id in "$@"; do
  ./run.sh $id quick > /tmp/seed.run.$id.log 2>&1; rc=$?
  echo "$(basename $D) CHECK $id quick exit=$rc $(grep -c '^VIOLATION' /tmp/seed.run.$id.log) violation lines; $(grep -m1 'clause:' /tmp/seed.run.$id.log)"
done
git -C /repo checkout -q -- .
rm -rf /verif/evidence; mv /tmp/evidence.keep /verif/evidence
rm -rf /verif/replays
