#!/bin/bash
# tools/try_round2.sh <ID> [extra check ids...]: confirm and test both round-2 seeded changes of a property
id=$1; shift
for k in 1 2; do
  d=/tmp/seed11_$id/out/$k
  [ -f $d/patch.diff ] || { echo "== $id/$k missing"; continue; }
  pkg=$(grep -m1 '^package ' $d/demo_test.go | sed 's/package \([a-z]*\).*/\1/')
  echo "== $id-r11-$k (demo package $pkg)"
  /verif/tools/try_seed.sh $d $pkg $id "$@"
  mkdir -p /verif/seeded/$id-r11-$k; cp $d/patch.diff $d/demo_test.go $d/notes.md /verif/seeded/$id-r11-$k/
done
