#!/usr/bin/env python3
"""Applies every kept seeded change to /repo in turn, runs the quick checks listed for it, undoes it,
and writes seeded/<name>/meta.json plus seeded/MATRIX.md. Run the quick checks on the clean tree afterwards
(the evidence files are rewritten by every run)."""
import json, os, subprocess, sys, re
ROOT = os.path.dirname(os.path.dirname(os.path.abspath(__file__)))
# under "vp run --with-repo" the patches go to the snapshot of /repo, and the checks are pointed at it
REPO = os.environ.get("VP_RUN_REPO") or os.environ.get("VERIF_REPO") or "/repo"
ENV = dict(os.environ, VERIF_REPO=REPO)
S = {
 "C01-1": ("C01", "emitter", "continue of a do...while jumps to the condition instead of the body start; needs a continue bound to a do-while and the loop condition false at that moment", ["C01"]),
 "C01-2": ("C01", "emitter", "labels after a block's final return/end are folded into the terminated chunk; needs a nested block ending in return/end followed only by labels, and a goto to such a label that is taken", ["C01"]),
 "C02-1": ("C02", "emitter", "a parenthesised group after && swallows a following ||; needs X && (G) || Y with X false and Y true", ["C02", "C01"]),
 "C02-2": ("C02", "emitter", "value(N) loses its raw-comparison mark when the leaf is negated by an enclosing !( ); needs value() in the var-id range under odd negation", ["C02"]),
 "C03-1": ("C03", "emitter", "default bookkeeping lost when a body-less default shares a later body; needs body-less default + shared body + trailing body-less case", ["C03", "C01"]),
 "C03-2": ("C03", "emitter", "a break directly before case/default/} is skipped; needs a case whose whole body is a lone break followed by a case with a body", ["C03", "C01"]),
 "C04-1": ("C04", "emitter", "trailing body-less cases after a default body jump to returnID, which is -1 at script tail: 'case 2, Tail_-1'; needs default body + trailing empty case + switch in tail position", ["C04", "C01"]),
 "C04-2": ("C04", "emitter", "statements after break kept only if a direct sibling is a label; needs a label nested in a compound statement after a break", ["C04", "C01"]),
 "C05-1": ("C05", "emitter", "with -optimize the chunk after a break is dropped; needs a user label after a break and optimize on", ["C05", "C04", "C01"]),
 "C05-2": ("C05", "emitter", "a break registers its target label even when it falls through; needs optimize and a break laid out directly before its target as the only path into it", ["C05"]),
 "C06-1": ("C06", "emitter", "dedupe key of inline texts ignores the string type; needs equal terminated content with different types (plain vs braille)", ["C06", "C09"]),
 "C06-2": ("C06", "emitter", "inline data collected inside a parenthesised sub-expression followed by && / || is lost; needs an AutoVar command with inline text as left operand of such a group", ["C06"]),
 "C07-1": ("C07", "parser", "cursor overlap not reserved before an explicit \\l/\\n/\\N; needs overlap > 0 and a multi-word prompt line ending in an explicit break within (max-overlap, max]", ["C07"]),
 "C07-2": ("C07", "parser", "named fontId= keeps the default font's maxLineLength/numLines/overlap; needs a named fontId different from the default font with settings left to the config", ["C07"]),
 "C08-1": ("C08", "emitter", "a plain inline map script overwrites the inline data collected so far; needs an inline script with inline text followed later by a plain inline script", ["C08", "C06"]),
 "C08-2": ("C08", "emitter", "inline scripts of an earlier table are emitted again after every later table; needs >= 2 tables, an earlier one with an inline row", ["C08", "C06"]),
 "C09-1": ("C09", "emitter", "terminator added via TrimRight(text, suffix)+suffix; needs ascii text ending in 0 or backslash, or text ending in $$", ["C09"]),
 "C09-2": ("C09", "emitter", "inline text dedupe keyed by terminator instead of type; needs equal content with plain vs braille or two custom types", ["C09", "C06"]),
 "C10-1": ("C10", "emitter", "statement poryswitch '_' fallback loses the inline data of its commands; needs a fallback case taken whose command has inline text/moves()", ["C10", "C12"]),
 "C10-2": ("C10", "emitter", "everything after a mid-block end/return is discarded unless a label follows in that block; needs commands after end/return", ["C10", "C01"]),
 "C11-1": ("C11", "emitter", ":= shadows the inline-data accumulator in the && branch; needs an AutoVar command with inline text as right operand of && followed by another operator", ["C11", "C06"]),
 "C11-2": ("C11", "emitter", "the command of a repeated identical AutoVar leaf is not emitted; needs two adjacent leaves with the same command and arguments", ["C11"]),
 "C12-1": ("C12", "emitter", "inline data of a poryswitch nested in an unselected case is registered anyway; needs nesting in an unselected outer case with inline text inside", ["C12"]),
 "C12-2": ("C12", "emitter", "untyped selected text case takes the string type of the '_' case; needs matched untyped case + typed '_' case", ["C12", "C09"]),
 "C13-1": ("C13", "emitter", "mart terminator checked on the unexpanded item; needs a constant whose value is ITEM_NONE used as mart item", ["C13", "C14"]),
 "C13-2": ("C13", "emitter", "one extra constant lookup on the substituted value; needs const A = B before const B = ..., A used after B", ["C13"]),
 "C14-1": ("C14", "emitter", "same root cause as C13-1 found independently (mart terminator on the source token)", ["C14", "C13"]),
 "C14-2": ("C14", "emitter", "movement dedupe key ignores step_end; needs two moves() lists identical up to a mid-list step_end", ["C14", "C06"]),
 "C15-1": ("C15", "emitter", "inline map scripts inherit the scope of the last top-level script emitted before them; needs a global script before a mapscripts with inline scripts", ["C15"]),
 "C15-2": ("C15", "emitter", "a (global) label is exported only if its script is exported; needs a (global) label in a script(local) or inline map script", ["C15"]),
 "C16-1": ("C16", "emitter", "raw lines iterated with bufio.Scanner when markers are on; needs a CRLF or empty raw block", ["C16"]),
 "C16-2": ("C16", "emitter", "inline format() text takes the position of the closing parenthesis; needs format( ... ) spread over several lines", ["C16"]),
 "C17-1": ("C17", "emitter", "font configs shared between parsers and the -f override written into them; needs an earlier compilation with -f and a later one without", ["C17"]),
 "C17-2": ("C17", "emitter", "control-code width memo keyed by word only; needs two format() calls under different fonts sharing a control-code word, the later near its limit", ["C17", "C07"]),
 "C18-1": ("C18", "emitter", "chunk ids no longer contiguous => optimizeChunkOrder spins forever; needs default body + two trailing empty cases + a later branch-only chunk, optimize on", ["C18", "C03"]),
 "C18-2": ("C18", "parser", "the line counter also advances after \\r; needs CRLF input and an error located after it", ["C18", "C19"]),
 "C19-1": ("C19", "lexer", "byte column reset assumes a one-byte first character; needs a line (not the first) starting with a multi-byte character", ["C19"]),
 "C19-2": ("C19", "emitter", "an empty // comment as the very last bytes of the input is not recognised; needs '//' at end of input without newline", ["C19"]),
 "C20-1": ("C20", "parser", "duplicate-case check compares the unexpanded spelling; needs a const equal to another case value", ["C20"]),
 "C20-2": ("C20", "emitter", "text-label clash set built from text statements only; needs a script label spelled like a produced hoisted text label", ["C20"]),
 "C01-r2-1": ("C01", "emitter", "parseDoWhileStatement no longer pops the break stack; needs a do-while nested in a loop/switch and a later break of the outer construct that is taken", ["C01"]),
 "C01-r2-2": ("C01", "emitter", "breakContext tests 'dest == next' before the -1 (return) case; needs a loop as the script's last statement, its break chunk rendered last, and the break taken", ["C01", "C04", "C05"]),
 "C02-r2-1": ("C02", "emitter", "leaf branch tests fall-through before the -1 false target; needs the condition as the script's last statement (no else), the leaf chunk rendered last and the expression false", ["C02", "C01", "C04"]),
 "C02-r2-2": ("C02", "emitter", "defeated() rendering 'simplified'; differs only for (!=, TRUE), produced by De Morgan under an odd number of negations", ["C02", "C01"]),
 "C03-r2-1": ("C03", "emitter", "a switch whose only body is the default's is dropped; needs default body first, body-less cases after it, no case reaching a body", ["C03", "C01"]),
 "C03-r2-2": ("C03", "emitter", "same reordering as C01-r2-2 found independently (break at script end loses its return)", ["C03", "C01", "C04"]),
 "C04-r2-1": ("C04", "emitter", "elif stitching appends to the original chunk list; needs an if with >= 2 elif branches", ["C04", "C01"]),
 "C04-r2-2": ("C04", "emitter", "inline scripts of earlier tables re-emitted after later tables (slice never reset); needs >= 2 tables", ["C04", "C08"]),
 "C05-r2-1": ("C05", "emitter", "switch without default no longer registers its fall-out target; needs no case body flowing on and the continuation not laid out next", ["C05", "C04", "C01"]),
 "C05-r2-2": ("C05", "emitter", "no terminator/goto after a chunk ending in end/return + user label; needs a label directly after end/return as the last thing of its block, entered by goto", ["C05", "C01"]),
 "C06-r2-1": ("C06", "emitter", "movement labels numbered per flush instead of per owning script; needs two inline scripts of one mapscripts statement both using moves()", ["C06", "C08"]),
 "C06-r2-2": ("C06", "emitter", "terminator applied after de-duplication; needs the same text once with and once without its explicit terminator", ["C06"]),
 "C07-r2-1": ("C07", "emitter", "only the first literal seam becomes a space; needs format() of three or more adjacent literals", ["C07"]),
 "C07-r2-2": ("C07", "emitter", "an unmatched '}' drives the control-code level negative; needs a stray '}' followed by more words", ["C07"]),
 "C08-r2-1": ("C08", "emitter", "plain inline map scripts collected by address of the range variable (go 1.13 semantics); needs >= 2 plain entries with an inline one not last", ["C08"]),
 "C08-r2-2": ("C08", "emitter", "table entries filtered in place: the first Emit is right, a second Emit of the same parsed program is wrong; needs (label, inline) rows and two emits", ["C17"]),
 "C09-r2-1": ("C09", "emitter", "constants leak into inline string literals; needs an inline untyped single-part string equal to a constant's name", ["C09", "C13"]),
 "C09-r2-2": ("C09", "emitter", "untyped selected text case takes the '_' case's type (two cooperating sites); needs plain selected case + typed '_'", ["C09", "C12"]),
 "C10-r2-1": ("C10", "emitter", "inline-data slot counts only top-level commas; needs a nested-parenthesis argument with a comma before an inline text / moves()", ["C10"]),
 "C10-r2-2": ("C10", "emitter", "isHexDigit drops lower-case a-f; needs a hex literal with a lower-case digit", ["C10", "C19"]),
 "C11-r2-1": ("C11", "emitter", "trailing empty elif blocks are pruned; needs an AutoVar condition in a trailing empty elif without else", ["C11"]),
 "C11-r2-2": ("C11", "emitter", "AutoVar condition operand goes through constant substitution; needs a const named like the result var, or an argument naming a later constant", ["C11", "C13"]),
 "C12-r2-1": ("C12", "emitter", "case labels of list poryswitches go through constant replacement; needs a const named like a selected case label", ["C12"]),
 "C12-r2-2": ("C12", "emitter", "a colon-form case starting with a nested poryswitch is parsed like a block; needs 'KEY: poryswitch(..){..}' followed by further cases", ["C12"]),
 "C13-r2-1": ("C13", "emitter", "table entry with inline script keeps the unexpanded (first token of the) condition; needs a constant / several tokens as table var of a brace-form row", ["C13", "C08"]),
 "C13-r2-2": ("C13", "emitter", "redefinition check through the substitution helper; needs const X = X followed by a second definition of X", ["C13"]),
 "C14-r2-1": ("C14", "emitter", "movement termination split across parser and emitter; needs the first step_end inside a selected poryswitch case with more steps after the poryswitch", ["C14", "C12"]),
 "C14-r2-2": ("C14", "emitter", "mart list cut with 'end > 0'; needs ITEM_NONE as the first item with items after it", ["C14"]),
 "C15-r2-1": ("C15", "emitter", "empty-script fast path ignores the scope; needs an empty (or poryswitch-emptied) body in a non-global script / inline map script", ["C15"]),
 "C15-r2-2": ("C15", "emitter", "'has a modifier' treated as 'is global' for labels; needs a label written with (local)", ["C15"]),
 "C16-r2-1": ("C16", "emitter", "escaped input path cached in a package variable; needs two compilations with different paths in one process", ["C16"]),
 "C16-r2-2": ("C16", "emitter", "raw statements emit markers whenever -lm is on, even without a path; needs -lm, empty path and a raw statement", ["C16"]),
 "C17-r2-1": ("C17", "emitter", "jump-target scratch map is package level and not cleared when the emitter fails; needs an earlier compilation failing in the emitter", ["C17"]),
 "C17-r2-2": ("C17", "parser", "a const swallows a directly following raw block; needs const immediately followed by raw", ["C17"]),
 "C18-r2-1": ("C18", "parser", "constants resolved transitively: const X = X plus a use spins forever without consuming tokens", ["C18", "C13"]),
 "C18-r2-2": ("C18", "parser", "lint mode rejects a statement poryswitch without '_' that normal mode accepts with its switches", ["C18"]),
 "C19-r2-1": ("C19", "emitter", "# and // comment loops split apart; needs a // comment followed by a # comment in one gap", ["C19"]),
 "C19-r2-2": ("C19", "parser", "character column of 0-leading numbers taken from the byte counter; needs such a number after a multi-byte character on its line", ["C19"]),
 "C20-r2-1": ("C20", "parser", "continue-must-be-last re-done as a scan in parseBlockStatement only; needs continue followed by statements directly in a case body", ["C20"]),
 "C20-r2-2": ("C20", "emitter", "chunk-label set filled while rendering; needs a user label equal to the label of a chunk rendered later", ["C20"]),
 "C01-r3-1": ("C01", "emitter", "while header jumps to chunkCounter+1 instead of the condition's entry chunk; needs a while with a compound condition", ["C01", "C02"]),
 "C01-r3-2": ("C01", "emitter", "explicit != on flag()/defeated() parsed as ==; needs a leaf flag(X) != true|false", ["C01", "C02"]),
 "C02-r3-1": ("C02", "emitter", "a true middle elif is skipped (firstID argument); needs >= 2 elifs, the if false and a non-last elif true", ["C02", "C01"]),
 "C02-r3-2": ("C02", "emitter", "an elif with an empty block is dropped with its condition; needs an empty elif followed by another branch", ["C02", "C01"]),
 "C03-r3-1": ("C03", "emitter", "do-while leaves itself on the break stack; needs a do-while inside a case body and a later break of the switch", ["C03", "C01"]),
 "C03-r3-2": ("C03", "emitter", "a bare return after a branching statement is folded away; needs switch + return as the end of a nested block", ["C03", "C01"]),
 "C04-r3-1": ("C04", "emitter", "empty inline map scripts are not emitted but still referenced; needs an inline map script with an empty (or poryswitch-emptied) body", ["C04"]),
 "C04-r3-2": ("C04", "emitter", "labels trailing a final end/return are cut off; needs end/return followed only by labels up to the block end", ["C04"]),
 "C05-r3-1": ("C05", "emitter", "optimizer marks picked chunks instead of deleting them: a chunk laid out twice, another dropped; needs a continuation not reached by fall-through and a later plain return to it", ["C05"]),
 "C05-r3-2": ("C05", "emitter", "optimizer elides empty chunks that are still jump targets; needs an empty if/while body or trailing empty cases after a default, with code after", ["C05"]),
 "C06-r3-1": ("C06", "emitter", "inline data of an AutoVar switch operand merged after the case bodies; needs inline text in the operand and in a case body", ["C06"]),
 "C06-r3-2": ("C06", "emitter", "movement clash check skips global-scope movements; needs movement(global) named like a produced hoisted movement", ["C06", "C20"]),
 "C07-r3-1": ("C07", "emitter", "an explicit \\l jumps the line counter to numLines-1; needs numLines >= 3, an early explicit \\l and a later automatic break", ["C07"]),
 "C07-r3-2": ("C07", "parser", "a width of 0 in the font table is treated as missing; needs a font with a default width and a glyph / code listed with width 0", ["C07"]),
 "C08-r3-1": ("C08", "emitter", "':' labels of map-script entries run through the constant table; needs a const named like such a label", ["C08", "C13"]),
 "C08-r3-2": ("C08", "emitter", "the emit error of an inline map script is swallowed; needs an inline script whose label clashes with a text label", ["C20"]),
 "C09-r3-1": ("C09", "emitter", "inline text of the last && operand before ')' is lost; needs an AutoVar command with inline text in that position", ["C09", "C11", "C06"]),
 "C09-r3-2": ("C09", "emitter", "emitText iterates with bufio.Scanner; needs a custom-typed text that is empty or ends in an empty line", ["C09"]),
 "C10-r3-1": ("C10", "emitter", "scoped-label detection drops the trailing ':' check; needs a command whose whole argument list is the keyword local/global", ["C10"]),
 "C10-r3-2": ("C10", "emitter", "empty-case chunk reuses the id of the last case-body chunk; needs default body + trailing body-less case", ["C03", "C01"]),
 "C11-r3-1": ("C11", "emitter", "a colon-form poryswitch case keeps only the last parsed statement: the command of an AutoVar switch is dropped", ["C11", "C12"]),
 "C11-r3-2": ("C11", "emitter", "'!' directly on an AutoVar leaf loses its comparison operator", ["C11"]),
 "C12-r3-1": ("C12", "emitter", "an empty selected list case counts as no match (nil slice + nil test); needs 'KEY {}' selected with a non-empty '_' or none", ["C12", "C14"]),
 "C12-r3-2": ("C12", "emitter", "inline data of a nested statement poryswitch merged after its later siblings; needs nested poryswitch with inline data followed by a sibling with inline data", ["C12"]),
 "C13-r3-1": ("C13", "emitter", "a constant directly followed by '(' in a command argument is left unexpanded", ["C13"]),
 "C13-r3-2": ("C13", "emitter", "duplicate-case set keyed by the raw spelling; needs two cases equal only after expansion (written-out twin is rejected)", ["C13", "C20"]),
 "C14-r3-1": ("C14", "emitter", "same root cause as C12-r3-1 found independently (len(listItems) == 0 treated as missing case)", ["C14", "C12"]),
 "C14-r3-2": ("C14", "emitter", "movement multiplier parsed base 10; needs a hex multiplier", ["C14"]),
 "C15-r3-1": ("C15", "emitter", "explicit texts named like hoisted labels are never exported; needs text Foo_Text_7 without a clash", ["C15"]),
 "C15-r3-2": ("C15", "emitter", "label statements interned by name: a repeated label takes the scope of its first occurrence; needs the same label in several poryswitch cases with different modifiers", ["C15"]),
 "C16-r3-1": ("C16", "emitter", "input path spliced into the format string; needs a % in the path", ["C16"]),
 "C16-r3-2": ("C16", "emitter", "line counter advances after a lone CR; needs a carriage return outside a CRLF pair", ["C16", "C19"]),
 "C17-r3-1": ("C17", "parser", "duplicate-text-label error picked by map iteration; needs >= 2 different duplicated labels", ["C17"]),
 "C17-r3-2": ("C17", "emitter", "chunk-label set lives on the Emitter and accumulates; needs a label spelled like a sub-label of an earlier script, or two emits on one Emitter", ["C17"]),
 "C18-r3-1": ("C18", "emitter", "readNumber ASCII-only while NextToken dispatches on unicode.IsDigit: endless empty INT tokens; needs a non-ASCII digit inside a token-collecting construct", ["C18"]),
 "C18-r3-2": ("C18", "emitter", "empty value() panics (parts[0])", ["C18"]),
 "C19-r3-1": ("C19", "parser", "character column counts UTF-16 units; needs an astral character before a later token on its line", ["C19"]),
 "C19-r3-2": ("C19", "emitter", "a multi-part string only continues across a line break; needs a gap between parts that starts with a space or tab", ["C19"]),
 "C20-r3-1": ("C20", "parser", "redefinition check through the substitution helper; needs const FOO = FOO before the redefinition", ["C20"]),
 "C20-r3-2": ("C20", "parser", "break scope pushed per case body, never popped for default; needs a switch with default earlier and a stray break later", ["C20"]),
 "C01-r4-1": ("C01", "emitter", "an if with an empty body and no elif/else emits no condition; needs an AutoVar command in such a condition (its command disappears)", ["C01", "C11"]),
 "C01-r4-2": ("C01", "emitter", "a default that holds the body of a shared case group is never registered; needs body-less cases directly before a default with the body and a value matching nothing", ["C01", "C03"]),
 "C02-r4-1": ("C02", "emitter", "a '!' written directly before an AutoVar leaf is ignored; needs an AutoVar command in a condition with the ! prefix", ["C02", "C11"]),
 "C02-r4-2": ("C02", "emitter", "with line markers on an AutoVar leaf no longer runs its command; needs markers + path + an AutoVar leaf", ["C02", "C16", "C11"]),
 "C03-r4-1": ("C03", "emitter", "constants in a case value substituted only when the value is one token; needs a multi-token case value mentioning a constant", ["C03", "C13"]),
 "C03-r4-2": ("C03", "emitter", "the no-match jump of a default-less switch does not keep its target label; needs optimize and the continuation reached only by that jump", ["C03", "C05"]),
 "C04-r4-1": ("C04", "emitter", "default target read before it is assigned; needs a body-less default before the case that owns the shared body", ["C04", "C03"]),
 "C04-r4-2": ("C04", "emitter", "'has a body' test of switch cases ignores labels; needs a case body made of labels only", ["C04", "C03"]),
 "C05-r4-1": ("C05", "emitter", "jump-target bookkeeping survives from one inline map script to the next; needs two inline scripts with control flow in one mapscripts", ["C05", "C08"]),
 "C05-r4-2": ("C05", "emitter", "label-clash check sees only the chunks laid out so far; needs a user label named like a sub-label laid out later in one form only", ["C05", "C20"]),
 "C06-r4-1": ("C06", "emitter", "inline data of the statement-poryswitch fallback case is dropped; needs the '_' case selected with inline text/moves() in it", ["C06", "C12"]),
 "C06-r4-2": ("C06", "emitter", "per-script text counter also advances for shared texts; needs a repeated text followed by a new text in one script", ["C06"]),
 "C07-r4-1": ("C07", "emitter", "'line empty?' asked of the pixel width; needs a line of zero-width words followed by a word that does not fit behind them", ["C07"]),
 "C07-r4-2": ("C07", "emitter", "named maxLineLength= parsed decimal-only; needs a hex value in the named form", ["C07"]),
 "C08-r4-1": ("C08", "emitter", "table rows with an identical var/value pair pruned when optimizing; needs optimize and two such rows", ["C08"]),
 "C08-r4-2": ("C08", "emitter", "define-once guard also remembers labels only referred to; needs a ':' entry naming the generated label of a later inline entry", ["C08"]),
 "C09-r4-1": ("C09", "emitter", "string type of an inline text leaks to later plain strings of the same command; needs typed then untyped literal in one command", ["C09", "C06"]),
 "C09-r4-2": ("C09", "emitter", "text line used as a printf format; needs a percent sign in a text", ["C09"]),
 "C10-r4-1": ("C10", "emitter", "command line built as a printf format; needs a % among argument tokens", ["C10"]),
 "C10-r4-2": ("C10", "emitter", "shared moves() remembered by per-script index; needs the same movement in inline moves() of two scripts", ["C10", "C06"]),
 "C11-r4-1": ("C11", "emitter", "result var of a position-configured AutoVar command cached per command name; needs the command twice with different vars", ["C11"]),
 "C11-r4-2": ("C11", "emitter", "AutoVar command dropped when the false outcome of its leaf ends the script; needs the condition as last statement", ["C11", "C02"]),
 "C12-r4-1": ("C12", "emitter", "a selected case without inline data registers the inline data of the '_' case; needs both", ["C12", "C06"]),
 "C12-r4-2": ("C12", "emitter", "a switch given with an empty value counts as not specified; needs -s NAME= (empty value)", ["C12"]),
 "C13-r4-1": ("C13", "emitter", "value() decides about parentheses from the token count; needs value(K) with K expanding to several tokens", ["C13"]),
 "C13-r4-2": ("C13", "emitter", "ASCII-only fast path before the constant table; needs a constant whose name starts with a non-ASCII letter", ["C13"]),
 "C14-r4-1": ("C14", "emitter", ".align 2 dropped for a mart directly after another mart; needs two adjacent marts", ["C14"]),
 "C14-r4-2": ("C14", "emitter", "movement cut at the last step_end; needs step_end twice in one list", ["C14"]),
 "C15-r4-1": ("C15", "emitter", "a text(local) makes every later text local; needs a local text before a global one", ["C15"]),
 "C15-r4-2": ("C15", "emitter", "movement(global)/mart(global) lose their export with line markers; needs markers + path + such a statement", ["C15", "C16"]),
 "C16-r4-1": ("C16", "emitter", "marker of an inline movement taken from the name token; needs markers and moves()", ["C16"]),
 "C16-r4-2": ("C16", "emitter", "inline text keeps the position of its command; needs a string starting on a later line than its command", ["C16"]),
 "C17-r4-1": ("C17", "emitter", "a named maxLineLength= becomes the default of later format() calls; needs an earlier named form and a later call without length", ["C17", "C07"]),
 "C17-r4-2": ("C17", "emitter", "input path escaped in place at every Emit(); needs markers, a backslash in the path and a second Emit()", ["C17"]),
 "C18-r4-1": ("C18", "emitter", "a genuine U+FFFD is treated as invalid UTF-8 and panics; needs U+FFFD in the input", ["C18", "C19"]),
 "C18-r4-2": ("C18", "parser", "unknown command-line default font makes format() fail at line 0; needs -f with an unknown id and a format() call", ["C18"]),
 "C19-r4-1": ("C19", "emitter", "a comment containing U+FFFD ends early; needs U+FFFD in a comment followed by more text", ["C19"]),
 "C19-r4-2": ("C19", "parser", "start column of identifiers/numbers assumes a one-byte first character; needs a word starting with a non-ASCII letter", ["C19"]),
 "C20-r4-1": ("C20", "parser", "text name clash set keyed by (name, string type); needs an explicit text named like a hoisted label with another type", ["C20", "C06"]),
 "C20-r4-2": ("C20", "parser", "loop scopes restored with the break depth for both stacks; needs a loop inside a switch case and a later stray continue", ["C20"]),
}
only = sys.argv[1:]
SEED = os.environ.get("VERIF_SEED", "1")  # at other seeds nothing is written: the run only measures how reliably a change is reported
rows = []
for name in sorted(S):
    if only and name not in only:
        continue
    prop, pkg, needs, ids = S[name]
    d = os.path.join(ROOT, "seeded", name)
    patch = os.path.join(d, "patch.diff")
    if not os.path.exists(patch):
        print("missing", name); continue
    r = subprocess.run(["git", "-C", REPO, "apply", patch], capture_output=True, text=True)
    if r.returncode != 0:
        print(name, "patch does not apply", r.stderr[:200]); continue
    res = {}
    try:
        for i in ids:
            p = subprocess.run([os.path.join(ROOT, "run.sh"), i, "quick"], capture_output=True, text=True, cwd=ROOT, env=ENV)
            m = re.search(r"clause: (\S+)", p.stdout)
            res[i] = {"exit": p.returncode, "violation_lines": len(re.findall(r"^VIOLATION ", p.stdout, re.M)), "first_clause": m.group(1) if m else None}
    finally:
        subprocess.run(["git", "-C", REPO, "checkout", "-q", "--", "."])
    meta = {"name": name, "breaks_property": prop, "written_by": "independent sub-agent given only the property text and a scratch worktree of /repo",
            "needs_to_manifest": needs, "demo": {"file": "demo_test.go", "package_dir": pkg, "confirmed": "demo passes on the clean tree, fails with the patch; the pinned suite passes with the patch (tools/try_seed.sh)"},
            "ran": ["git -C /repo apply seeded/%s/patch.diff; ./run.sh %s quick; git -C /repo checkout -- ." % (name, i) for i in ids],
            "results": res, "caught_by": [i for i in ids if res[i]["exit"] == 1]}
    if SEED == "1":
        json.dump(meta, open(os.path.join(d, "meta.json"), "w"), indent=1)
    rows.append((name, prop, needs, res))
    print(name, {i: (v["exit"], v["first_clause"]) for i, v in res.items()}, flush=True)
subprocess.run(["rm", "-rf", os.path.join(ROOT, "replays")])
if not only and SEED == "1":
    with open(os.path.join(ROOT, "seeded", "MATRIX.md"), "w") as f:
        f.write("| seeded change | property | what it needs to manifest | quick checks that report it (clause) |\n|---|---|---|---|\n")
        for name, prop, needs, res in rows:
            hit = ", ".join("%s (%s)" % (i, v["first_clause"]) for i, v in res.items() if v["exit"] == 1) or "none"
            miss = ", ".join(i for i, v in res.items() if v["exit"] != 1)
            f.write("| %s | %s | %s | %s%s |\n" % (name, prop, needs, hit, ("; silent: " + miss) if miss else ""))
