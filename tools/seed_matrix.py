#!/usr/bin/env python3
"""Applies every kept seeded change to /repo in turn, runs the quick checks listed for it, undoes it,
and writes seeded/<name>/meta.json plus seeded/MATRIX.md. Run the quick checks on the clean tree afterwards
(the evidence files are rewritten by every run)."""
import json, os, subprocess, sys, re
ROOT = os.path.dirname(os.path.dirname(os.path.abspath(__file__)))
S = {
 "C01-1": ("C01", "emitter", "continue of a do...while jumps to the condition instead of the body start; needs a continue bound to a do-while and the loop condition false at that moment", ["C01"]),
 "C01-2": ("C01", "emitter", "labels after a block's final return/end are folded into the terminated chunk; needs a nested block ending in return/end followed only by labels, and a goto to such a label that is taken", ["C01"]),
 "C02-1": ("C02", "emitter", "a parenthesised group after && swallows a following ||; needs X && (G) || Y with X false and Y true", ["C02", "C01"]),
 "C02-2": ("C02", "emitter", "value(N) loses its raw-comparison mark when the leaf is negated by an enclosing !( ); needs value() in the var-id range under odd negation", ["C02"]),
 "C03-1": ("C03", "emitter", "default bookkeeping lost when a body-less default shares a later body; needs body-less default + shared body + trailing body-less case", ["C03", "C01"]),
 "C03-2": ("C03", "emitter", "a break directly before case/default/} is skipped; needs a case whose whole body is a lone break followed by a case with a body", ["C03", "C01"]),
 "C04-1": ("C04", "emitter", "trailing body-less cases after a default body jump to returnID, which is -1 at script tail: 'case 2, Tail_-1'; needs default body + trailing empty case + switch in tail position", ["C04", "C01"]),
 "C04-2": ("C04", "emitter", "statements after break kept only if a direct sibling is a label; needs a label nested in a compound statement after a break", ["C04", "C01"]),
 "C05-1": ("C05", "emitter", "with -optimize the chunk after a break is dropped; needs a user label after a break and optimize on", ["C05", "C04", "C01"]),
 "C05-2": ("C05", "emitter", "a break registers its target label even when it falls through; needs optimize and a break laid out directly before its target as the only path into it", ["C05"]),
 "C06-1": ("C06", "emitter", "dedupe key of inline texts ignores the string type; needs equal terminated content with different types (plain vs braille)", ["C06", "C09"]),
 "C06-2": ("C06", "emitter", "inline data collected inside a parenthesised sub-expression followed by && / || is lost; needs an AutoVar command with inline text as left operand of such a group", ["C06"]),
 "C07-1": ("C07", "parser", "cursor overlap not reserved before an explicit \\l/\\n/\\N; needs overlap > 0 and a multi-word prompt line ending in an explicit break within (max-overlap, max]", ["C07"]),
 "C07-2": ("C07", "parser", "named fontId= keeps the default font's maxLineLength/numLines/overlap; needs a named fontId different from the default font with settings left to the config", ["C07"]),
 "C08-1": ("C08", "emitter", "a plain inline map script overwrites the inline data collected so far; needs an inline script with inline text followed later by a plain inline script", ["C08", "C06"]),
 "C08-2": ("C08", "emitter", "inline scripts of an earlier table are emitted again after every later table; needs >= 2 tables, an earlier one with an inline row", ["C08", "C06"]),
 "C09-1": ("C09", "emitter", "terminator added via TrimRight(text, suffix)+suffix; needs ascii text ending in 0 or backslash, or text ending in $$", ["C09"]),
 "C09-2": ("C09", "emitter", "inline text dedupe keyed by terminator instead of type; needs equal content with plain vs braille or two custom types", ["C09", "C06"]),
 "C10-1": ("C10", "emitter", "statement poryswitch '_' fallback loses the inline data of its commands; needs a fallback case taken whose command has inline text/moves()", ["C10", "C12"]),
 "C10-2": ("C10", "emitter", "everything after a mid-block end/return is discarded unless a label follows in that block; needs commands after end/return", ["C10", "C01"]),
 "C11-1": ("C11", "emitter", ":= shadows the inline-data accumulator in the && branch; needs an AutoVar command with inline text as right operand of && followed by another operator", ["C11", "C06"]),
 "C11-2": ("C11", "emitter", "the command of a repeated identical AutoVar leaf is not emitted; needs two adjacent leaves with the same command and arguments", ["C11"]),
 "C12-1": ("C12", "emitter", "inline data of a poryswitch nested in an unselected case is registered anyway; needs nesting in an unselected outer case with inline text inside", ["C12"]),
 "C12-2": ("C12", "emitter", "untyped selected text case takes the string type of the '_' case; needs matched untyped case + typed '_' case", ["C12", "C09"]),
 "C13-1": ("C13", "emitter", "mart terminator checked on the unexpanded item; needs a constant whose value is ITEM_NONE used as mart item", ["C13", "C14"]),
 "C13-2": ("C13", "emitter", "one extra constant lookup on the substituted value; needs const A = B before const B = ..., A used after B", ["C13"]),
 "C14-1": ("C14", "emitter", "same root cause as C13-1 found independently (mart terminator on the source token)", ["C14", "C13"]),
 "C14-2": ("C14", "emitter", "movement dedupe key ignores step_end; needs two moves() lists identical up to a mid-list step_end", ["C14", "C06"]),
 "C15-1": ("C15", "emitter", "inline map scripts inherit the scope of the last top-level script emitted before them; needs a global script before a mapscripts with inline scripts", ["C15"]),
 "C15-2": ("C15", "emitter", "a (global) label is exported only if its script is exported; needs a (global) label in a script(local) or inline map script", ["C15"]),
 "C16-1": ("C16", "emitter", "raw lines iterated with bufio.Scanner when markers are on; needs a CRLF or empty raw block", ["C16"]),
 "C16-2": ("C16", "emitter", "inline format() text takes the position of the closing parenthesis; needs format( ... ) spread over several lines", ["C16"]),
 "C17-1": ("C17", "emitter", "font configs shared between parsers and the -f override written into them; needs an earlier compilation with -f and a later one without", ["C17"]),
 "C17-2": ("C17", "emitter", "control-code width memo keyed by word only; needs two format() calls under different fonts sharing a control-code word, the later near its limit", ["C17", "C07"]),
 "C18-1": ("C18", "emitter", "chunk ids no longer contiguous => optimizeChunkOrder spins forever; needs default body + two trailing empty cases + a later branch-only chunk, optimize on", ["C18", "C03"]),
 "C18-2": ("C18", "parser", "the line counter also advances after \\r; needs CRLF input and an error located after it", ["C18", "C19"]),
 "C19-1": ("C19", "lexer", "byte column reset assumes a one-byte first character; needs a line (not the first) starting with a multi-byte character", ["C19"]),
 "C19-2": ("C19", "emitter", "an empty // comment as the very last bytes of the input is not recognised; needs '//' at end of input without newline", ["C19"]),
 "C20-1": ("C20", "parser", "duplicate-case check compares the unexpanded spelling; needs a const equal to another case value", ["C20"]),
 "C20-2": ("C20", "emitter", "text-label clash set built from text statements only; needs a script label spelled like a produced hoisted text label", ["C20"]),
}
only = sys.argv[1:]
rows = []
for name in sorted(S):
    if only and name not in only:
        continue
    prop, pkg, needs, ids = S[name]
    d = os.path.join(ROOT, "seeded", name)
    patch = os.path.join(d, "patch.diff")
    if not os.path.exists(patch):
        print("missing", name); continue
    r = subprocess.run(["git", "-C", "/repo", "apply", patch], capture_output=True, text=True)
    if r.returncode != 0:
        print(name, "patch does not apply", r.stderr[:200]); continue
    res = {}
    try:
        for i in ids:
            p = subprocess.run([os.path.join(ROOT, "run.sh"), i, "quick"], capture_output=True, text=True, cwd=ROOT)
            m = re.search(r"clause: (\S+)", p.stdout)
            res[i] = {"exit": p.returncode, "violation_lines": len(re.findall(r"^VIOLATION ", p.stdout, re.M)), "first_clause": m.group(1) if m else None}
    finally:
        subprocess.run(["git", "-C", "/repo", "checkout", "-q", "--", "."])
    meta = {"name": name, "breaks_property": prop, "written_by": "independent sub-agent given only the property text and a scratch worktree of /repo",
            "needs_to_manifest": needs, "demo": {"file": "demo_test.go", "package_dir": pkg, "confirmed": "demo passes on the clean tree, fails with the patch; the pinned suite passes with the patch (tools/try_seed.sh)"},
            "ran": ["git -C /repo apply seeded/%s/patch.diff; ./run.sh %s quick; git -C /repo checkout -- ." % (name, i) for i in ids],
            "results": res, "caught_by": [i for i in ids if res[i]["exit"] == 1]}
    json.dump(meta, open(os.path.join(d, "meta.json"), "w"), indent=1)
    rows.append((name, prop, needs, res))
    print(name, {i: (v["exit"], v["first_clause"]) for i, v in res.items()}, flush=True)
subprocess.run(["rm", "-rf", os.path.join(ROOT, "replays")])
if not only:
    with open(os.path.join(ROOT, "seeded", "MATRIX.md"), "w") as f:
        f.write("| seeded change | property | what it needs to manifest | quick checks that report it (clause) |\n|---|---|---|---|\n")
        for name, prop, needs, res in rows:
            hit = ", ".join("%s (%s)" % (i, v["first_clause"]) for i, v in res.items() if v["exit"] == 1) or "none"
            miss = ", ".join(i for i, v in res.items() if v["exit"] != 1)
            f.write("| %s | %s | %s | %s%s |\n" % (name, prop, needs, hit, ("; silent: " + miss) if miss else ""))
