#!/usr/bin/env python3
"""tools/try_mutant.py <file#id | file#b<id>> <ID> [<ID>...]: apply one mutant of tools/mutate to a scratch copy of /repo
and run the quick checks of the given properties against it (VERIF_REPO); /repo and the evidence files stay untouched."""
import json, os, shutil, subprocess, sys
ROOT = os.path.dirname(os.path.dirname(os.path.abspath(__file__)))
ENV = dict(os.environ, GOFLAGS="-mod=mod", GOPROXY="off", GOSUMDB="off", GOTOOLCHAIN="local")
key, ids = sys.argv[1], sys.argv[2:]
f, mid = key.split("#")
verb = "list"
if mid.startswith("b"):
    verb, mid = "list2", mid[1:]
work = "/tmp/trymut.%d" % os.getpid()
os.makedirs(work)
try:
    subprocess.run(["go", "build", "-o", work + "/mutate", "."], cwd=ROOT + "/tools/mutate", env=ENV, check=True)
    subprocess.run(["rsync", "-a", "--exclude", ".git", "/repo/", work + "/repo/"], check=True)
    ms = [json.loads(l) for l in subprocess.run([work + "/mutate", verb, f], cwd="/repo", capture_output=True, text=True).stdout.splitlines()]
    m = ms[int(mid)]
    src = open("/repo/" + f, "rb").read()
    open(work + "/repo/" + f, "wb").write(src[:m["start"]] + m["repl"].encode() + src[m["end"]:])
    print("mutant %s line %d %s: %s -> %s" % (key, m["line"], m["op"], m["orig"], m["repl"][:80]))
    keep = work + "/evidence"
    shutil.copytree(ROOT + "/evidence", keep)
    for i in ids:
        p = subprocess.run([ROOT + "/run.sh", i, "quick"], cwd=ROOT, env=dict(ENV, VERIF_REPO=work + "/repo"), capture_output=True, text=True)
        clause = [l.strip() for l in p.stdout.splitlines() if "clause:" in l][:1]
        print("  %s quick exit=%d %s" % (i, p.returncode, clause))
    shutil.rmtree(ROOT + "/evidence"); shutil.copytree(keep, ROOT + "/evidence")
    shutil.rmtree(ROOT + "/replays", ignore_errors=True)
finally:
    shutil.rmtree(work, ignore_errors=True)
