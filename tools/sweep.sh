#!/bin/bash
# tools/sweep.sh <tier> <seed...> : run every check at the given seeds (used through `vp run --with-repo`)
tier=$1; shift
export VERIF_REPO=${VP_RUN_REPO:-/repo}
for seed in "$@"; do
  for id in C01 C02 C03 C04 C05 C06 C07 C08 C09 C10 C11 C12 C13 C14 C15 C16 C17 C18 C19 C20; do
    VERIF_SEED=$seed ./run.sh $id $tier > /tmp/sweep.$$.log 2>&1; rc=$?
    echo "seed=$seed $id $tier exit=$rc $(tail -1 /tmp/sweep.$$.log)"
    if [ $rc -ne 0 ]; then grep -v 'rapid\] draw' /tmp/sweep.$$.log | head -80; fi
  done
done
