#!/usr/bin/env python3
"""Driver for the poryscript property checks.

  run.py <ID> quick|thorough     run the checks of one property, write evidence/<ID>.json
  run.py replay <file>           re-run one replay / regression file through its oracle
  run.py build                   build the harness test binary (setup)

Exit codes: 0 property held on everything explored; 1 a violation was found
(a line "VIOLATION property=<ID> replay=<path>" is printed); 2 infrastructure
problem or inconclusive run (never a violation).
"""
import json, os, subprocess, sys, time, shutil, signal, tempfile
from concurrent.futures import ThreadPoolExecutor

ROOT = os.path.dirname(os.path.abspath(__file__))
HARNESS = os.path.join(ROOT, "harness")
BIN_DIR = os.path.join(ROOT, ".bin")

# property -> list of (test function, quick rapid checks, thorough rapid checks, sharded?)
# checks None = not a rapid test (enumeration / regression); it runs once.
# sharded tests run in several processes with different seeds.
PLAN = json.load(open(os.path.join(ROOT, "plan.json")))

ENV = dict(os.environ)
ENV.update({
    "GOFLAGS": "-mod=mod", "GOPROXY": "off", "GOSUMDB": "off", "GOTOOLCHAIN": "local",
    "VERIF_ROOT": ROOT,
})


def log(*a):
    print(*a, flush=True)


REPO = os.environ.get("VERIF_REPO", "/repo")  # the registered checks always use /repo; sweeps may point at a snapshot


def build():
    os.makedirs(BIN_DIR, exist_ok=True)
    out = os.path.join(BIN_DIR, "harness.%d.test" % os.getpid())
    t0 = time.time()
    cmd = ["go", "test", "-c", "-tags", "verif", "-o", out]
    if REPO != "/repo":
        modfile = os.path.join(BIN_DIR, "go.%d.mod" % os.getpid())
        txt = open(os.path.join(HARNESS, "go.mod")).read().replace("=> /repo", "=> " + REPO)
        open(modfile, "w").write(txt)
        shutil.copy(os.path.join(HARNESS, "go.sum"), modfile[:-4] + ".sum")
        cmd += ["-modfile=" + modfile]
        ENV["VERIF_REPO"] = REPO
    p = subprocess.run(cmd + ["."], cwd=HARNESS, env=ENV,
                       stdout=subprocess.PIPE, stderr=subprocess.STDOUT, text=True)
    if p.returncode != 0 or not os.path.exists(out):
        log("BUILD FAILED (harness or /repo does not compile with -tags verif):")
        log(p.stdout[-6000:])
        return None
    log("built harness against %s working tree in %.1fs" % (REPO, time.time() - t0))
    return out


def run_fuzz(binary, job, tier, seed, shard_dir):
    """Native coverage-guided fuzzing (cannot be pinned to a seed; the saved crasher is the reproducible unit)."""
    target = job["fuzz"]
    secs = job.get("fuzztime_" + tier, 120)
    env = dict(ENV)
    env.update({"VERIF_TIER": tier, "VERIF_SEED": str(seed)})
    crash_dir = os.path.join(HARNESS, "testdata", "fuzz", target)
    before = set(os.listdir(crash_dir)) if os.path.isdir(crash_dir) else set()
    t0 = time.time()
    cmd = ["go", "test", "-tags", "verif", "-run", "^$", "-fuzz", "^%s$" % target, "-fuzztime", "%ds" % secs, "."]
    p = subprocess.run(cmd, cwd=HARNESS, env=env, stdout=subprocess.PIPE, stderr=subprocess.STDOUT, text=True)
    out = p.stdout
    execs = 0
    for line in out.splitlines():
        if "execs:" in line:
            try:
                execs = int(line.split("execs:")[1].split()[0])
            except Exception:
                pass
    rc = p.returncode
    after = set(os.listdir(crash_dir)) if os.path.isdir(crash_dir) else set()
    new = sorted(after - before)
    stats = None
    if new:
        # re-run the saved crashers through the ordinary test binary so that the oracle prints its VIOLATION line
        out_path = os.path.join(shard_dir, "%s.fuzzreplay.json" % target)
        env2 = dict(env)
        env2["VERIF_SHARD_OUT"] = out_path
        q = subprocess.run([binary, "-test.run", "^%s$" % target, "-test.timeout", "300s"], cwd=HARNESS, env=env2,
                           stdout=subprocess.PIPE, stderr=subprocess.STDOUT, text=True)
        out += "\n" + q.stdout
        keep = os.path.join(ROOT, "replays", job.get("property", "fuzz"), "fuzz-crashers")
        os.makedirs(keep, exist_ok=True)
        for n in new:
            shutil.move(os.path.join(crash_dir, n), os.path.join(keep, n))
        rc = 1
    elif rc != 0 and "VIOLATION " not in out:
        rc = 2
    fstats = [{"id": job.get("property", ""), "evals": execs, "nt": [], "labels": {"fuzz_execs": execs}, "extra": {"fuzz_execs": execs, "fuzz_seconds": secs},
               "notes": {}, "exhaustive": {}, "samples": [], "assumptions": [], "rule": ""}]
    return {"test": target, "shard": 0, "rc": rc, "out": out, "timed_out": False, "wall": time.time() - t0,
            "stats": fstats, "checks": None, "rseed": None}


def run_job(binary, job, tier, seed, shard, nshards, shard_dir, timeout):
    if job.get("fuzz"):
        return run_fuzz(binary, job, tier, seed, shard_dir)
    test, checks = job["test"], job.get(tier)
    out_path = os.path.join(shard_dir, "%s.%d.json" % (test, shard))
    env = dict(ENV)
    rseed = seed * 1000003 + shard * 7919 + job["idx"] * 101 + 1
    env.update({"VERIF_TIER": tier, "VERIF_SEED": str(seed), "VERIF_SHARD": str(shard), "VERIF_PROPERTY": job.get("property", ""),
                "VERIF_NSHARDS": str(nshards), "VERIF_SHARD_OUT": out_path, "VERIF_RAPID_SEED": str(rseed)})
    cmd = [binary, "-test.run", "^%s$" % test, "-test.timeout", "0", "-test.v"]
    if checks is not None:
        cmd += ["-rapid.checks=%d" % checks, "-rapid.seed=%d" % rseed, "-rapid.nofailfile", "-rapid.shrinktime=20s"]
    t0 = time.time()
    try:
        p = subprocess.Popen(cmd, cwd=HARNESS, env=env, stdout=subprocess.PIPE, stderr=subprocess.STDOUT, text=True,
                             preexec_fn=os.setsid)
        try:
            out, _ = p.communicate(timeout=timeout)
            rc = p.returncode
            timed_out = False
        except subprocess.TimeoutExpired:
            os.killpg(p.pid, signal.SIGKILL)
            out, _ = p.communicate()
            rc, timed_out = -9, True
    except Exception as e:  # noqa
        return {"test": test, "shard": shard, "rc": 2, "out": "cannot run: %r" % e, "timed_out": False, "wall": 0, "stats": None, "checks": checks}
    stats = None
    if os.path.exists(out_path):
        try:
            stats = json.load(open(out_path))
        except Exception:
            stats = None
    return {"test": test, "shard": shard, "rc": rc, "out": out, "timed_out": timed_out, "wall": time.time() - t0,
            "stats": stats, "checks": checks, "rseed": rseed}


def merge(pid, tier, seed, results, wall, violations, inconclusive):
    evals = 0
    nt = set()
    labels, extra, notes, exhaustive = {}, {}, {}, {}
    samples, assumptions = [], []
    rule = ""
    passed = []
    for r in results:
        for s in (r["stats"] or []):
            if s["id"] != pid:
                continue
            evals += s["evals"]
            nt.update(s.get("nt") or [])
            for k, v in (s.get("labels") or {}).items():
                labels[k] = labels.get(k, 0) + v
            for k, v in (s.get("extra") or {}).items():
                extra[k] = extra.get(k, 0) + v
            for k, v in (s.get("notes") or {}).items():
                notes[k] = v
            for k, v in (s.get("exhaustive") or {}).items():
                exhaustive[k] = exhaustive.get(k, True) and v
            for x in (s.get("samples") or []):
                if len(samples) < 5 and x not in samples:
                    samples.append(x)
            for a in (s.get("assumptions") or []):
                if a not in assumptions:
                    assumptions.append(a)
            if s.get("rule"):
                rule = s["rule"] if not rule or s["rule"] == rule else rule + " || " + s["rule"] if s["rule"] not in rule else rule
        passed.append({"test": r["test"], "shard": r["shard"], "exit": r["rc"], "wall_s": round(r["wall"], 2),
                       "rapid_checks_requested": r["checks"], "timed_out": r["timed_out"]})
    cov = {
        "evaluations": evals,
        "distinct_nontrivial": len(nt),
        "rule": rule or "see DESIGN.md",
        "samples": samples if samples else ["(no non-trivial sample recorded in this run)"],
        "histogram": labels,
        "counters": extra,
        "notes": notes,
        "jobs": passed,
        "inconclusive": inconclusive,
    }
    if exhaustive:
        cov["exhaustive_enumerations"] = exhaustive
        cov["exhaustive"] = False  # the property as a whole is sampled; only the named small scopes are complete
    ev = {
        "property_id": pid, "tier": tier, "seed": seed, "level": "exploration",
        "coverage": cov, "assumptions": assumptions, "wall_s": round(wall, 2), "violations": violations,
    }
    os.makedirs(os.path.join(ROOT, "evidence"), exist_ok=True)
    tmp = os.path.join(ROOT, "evidence", ".%s.json.tmp" % pid)
    with open(tmp, "w") as f:
        json.dump(ev, f, indent=1, ensure_ascii=False)
    os.replace(tmp, os.path.join(ROOT, "evidence", "%s.json" % pid))


def check(pid, tier):
    if pid not in PLAN:
        log("unknown property %s" % pid)
        return 2
    try:
        seed = abs(int(os.environ.get("VERIF_SEED", "1") or "1")) % 1000000007
    except ValueError:
        seed = 1
    t0 = time.time()
    binary = build()
    if binary is None:
        return 2
    shard_dir = tempfile.mkdtemp(prefix="shards-%s-" % pid, dir=BIN_DIR)
    shutil.rmtree(os.path.join(HARNESS, "testdata", "rapid"), ignore_errors=True)
    jobs = []
    ncpu = os.cpu_count() or 4
    nshards_rapid = 4 if tier == "quick" else max(4, min(14, ncpu - 2))
    for idx, j in enumerate(PLAN[pid]):
        j = dict(j)
        j["idx"] = idx
        j["property"] = pid
        j.setdefault("test", j.get("fuzz"))
        if j.get("tiers") and tier not in j["tiers"]:
            continue
        n = nshards_rapid if j.get("sharded") else 1
        if j.get("shards_" + tier):
            n = j["shards_" + tier]
        for s in range(n):
            jobs.append((j, s, n))
    timeout = int(os.environ.get("VERIF_JOB_TIMEOUT", "420" if tier == "quick" else "5400"))
    workers = 4 if tier == "quick" else max(4, ncpu - 2)
    results = []
    fuzz_jobs = [(j, s, n) for (j, s, n) in jobs if j.get("fuzz")]
    jobs = [(j, s, n) for (j, s, n) in jobs if not j.get("fuzz")]
    with ThreadPoolExecutor(max_workers=workers) as ex:
        futs = [ex.submit(run_job, binary, j, tier, seed, s, n, shard_dir, j.get("timeout_" + tier, timeout)) for (j, s, n) in jobs]
        for f in futs:
            results.append(f.result())
    # native fuzzing uses all cores itself: run it after the sharded jobs, and only if nothing failed yet
    if not any("VIOLATION " in r["out"] for r in results):
        for (j, s, n) in fuzz_jobs:
            j["property"] = pid
            results.append(run_job(binary, j, tier, seed, 0, 1, shard_dir, timeout))
    violations = set()
    known = []
    infra = []
    # suspected hangs: confirm by re-running exactly that input twice in a child with a time limit
    suspects = set()
    for r in results:
        for line in r["out"].splitlines():
            if line.startswith("HANG-SUSPECT ") and "replay=" in line:
                suspects.add(line.split("replay=")[1].split()[0])
    for path in sorted(suspects):
        confirmed = 0
        for attempt in range(2):
            env = dict(ENV)
            env["VERIF_REPLAY"] = path
            try:
                q = subprocess.run([binary, "-test.run", "^TestReplay$", "-test.timeout", "120s"], cwd=HARNESS, env=env,
                                   stdout=subprocess.PIPE, stderr=subprocess.STDOUT, text=True, timeout=90)
                if "VIOLATION " in q.stdout:
                    confirmed += 1
            except subprocess.TimeoutExpired:
                confirmed += 1
        if confirmed == 2:
            violations.add("VIOLATION property=%s replay=%s" % (pid, path))
            log("confirmed twice in a fresh process: the compilation of the saved input does not terminate (or exhausts memory)")
        else:
            infra.append("suspected hang %s did not reproduce (%d/2)" % (path, confirmed))
    for r in results:
        saw_violation = False
        for line in r["out"].splitlines():
            if line.startswith("VIOLATION "):
                saw_violation = True
                violations.add(line.strip())
            elif line.startswith("KNOWN-FINDING:"):
                if line.strip() not in known:
                    known.append(line.strip())
        if r["timed_out"]:
            infra.append("%s shard %d: timed out after %.0fs (inconclusive)" % (r["test"], r["shard"], r["wall"]))
        elif r["rc"] == 3 and "HANG-SUSPECT " in r["out"]:
            pass  # handled above
        elif r["rc"] != 0 and not saw_violation:
            infra.append("%s shard %d: exit %s without a VIOLATION line\n%s" % (r["test"], r["shard"], r["rc"], r["out"][-3000:]))
    for k in known:
        log(k)
    # print details of the (first) violating jobs
    shown = 0
    for r in results:
        if "VIOLATION " in r["out"] and shown < 2:
            shown += 1
            body = [l for l in r["out"].splitlines() if not l.startswith("VIOLATION ")]
            log("---- %s shard %d (rapid seed %s) ----" % (r["test"], r["shard"], r.get("rseed")))
            log("\n".join(body[:120]))
    for v in sorted(violations):
        log(v)
    for i, m in enumerate(infra):
        log("INFRA: " + (m if i == 0 else m.splitlines()[0]))
    wall = time.time() - t0
    merge(pid, tier, seed, results, wall, len(violations), bool(infra))
    total = sum((s["evals"] for r in results for s in (r["stats"] or []) if s["id"] == pid), 0)
    log("%s %s: %d evaluations in %.1fs, %d violation line(s), %d infra problem(s)" % (pid, tier, total, wall, len(violations), len(infra)))
    shutil.rmtree(shard_dir, ignore_errors=True)
    try:
        os.remove(binary)
    except OSError:
        pass
    if violations:
        return 1
    if infra:
        return 2
    return 0


def replay(path):
    binary = build()
    if binary is None:
        return 2
    env = dict(ENV)
    env["VERIF_REPLAY"] = os.path.abspath(path)
    p = subprocess.run([binary, "-test.run", "^TestReplay$", "-test.timeout", "300s"], cwd=HARNESS, env=env,
                       stdout=subprocess.PIPE, stderr=subprocess.STDOUT, text=True)
    log(p.stdout)
    os.remove(binary)
    if "VIOLATION " in p.stdout:
        return 1
    return 0 if p.returncode == 0 else 2


def main():
    if len(sys.argv) >= 2 and sys.argv[1] == "build":
        b = build()
        if b:
            os.remove(b)
        return 0 if b else 2
    if len(sys.argv) >= 3 and sys.argv[1] == "replay":
        return replay(sys.argv[2])
    if len(sys.argv) >= 3:
        return check(sys.argv[1], sys.argv[2])
    log(__doc__)
    return 2


if __name__ == "__main__":
    sys.exit(main())
