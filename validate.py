#!/usr/bin/env python3
# validates MANIFEST.json and evidence/*.json against the given schemas (uses the tooling venv's jsonschema)
import json, sys, glob
import jsonschema
ok = True
m = json.load(open('/verif/MANIFEST.json'))
jsonschema.validate(m, json.load(open('/root/.vp/MANIFEST.schema.json')))
es = json.load(open('/root/.vp/EVIDENCE.schema.json'))
for f in sorted(glob.glob('/verif/evidence/*.json')):
    try:
        jsonschema.validate(json.load(open(f)), es)
    except Exception as e:
        ok = False
        print('INVALID', f, str(e)[:300])
print('manifest ok; evidence', 'ok' if ok else 'INVALID')
sys.exit(0 if ok else 1)
